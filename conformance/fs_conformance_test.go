package fs

// Conformance tests for the TRUSTED contracts of pkg/fs (run by the thorough tier through
// `go test -overlay`; not part of the repository). Each test checks an assumed contract of
// /repo/pkg/fs/contracts_verif.go against the real function on enumerated or sampled inputs.

import (
	"math/rand"
	"strings"
	"testing"
	"time"
	"unicode/utf8"
)

// volumeDescriptorTimestamp.encode: grown(enc, 17) when every field is in the range of its width.
// The width of each %0Nd verb depends on its own argument only, so each field is enumerated over
// its whole range with the others fixed (bounded: 10000 + 6*100 cases, all of each field's range).
func TestConformanceTimestampWidth(t *testing.T) {
	check := func(ts volumeDescriptorTimestamp) {
		var enc iso9660encoder
		enc.appendBytes([]byte("prefix"))
		before := enc.size()
		ts.encode(&enc)
		if enc.size()-before != 17 || string(enc[:6]) != "prefix" {
			t.Fatalf("encode(%+v) wrote %d bytes", ts, enc.size()-before)
		}
	}
	for y := 0; y <= 9999; y++ {
		check(volumeDescriptorTimestamp{Year: y})
	}
	for v := 0; v <= 99; v++ {
		check(volumeDescriptorTimestamp{Month: v})
		check(volumeDescriptorTimestamp{Day: v})
		check(volumeDescriptorTimestamp{Hour: v})
		check(volumeDescriptorTimestamp{Minute: v})
		check(volumeDescriptorTimestamp{Second: v})
		check(volumeDescriptorTimestamp{Hundredth: v})
	}
	check(volumeDescriptorTimestampFromTime(time.Now()))
}

func randomName(r *rand.Rand) string {
	n := r.Intn(40)
	var b strings.Builder
	for i := 0; i < n; i++ {
		switch r.Intn(6) {
		case 0:
			b.WriteRune(rune(0x80 + r.Intn(0x700))) // two-byte runes
		case 1:
			b.WriteRune(rune(0x4e00 + r.Intn(0x1000))) // three-byte runes
		case 2:
			b.WriteByte(byte(0x80 + r.Intn(0x80))) // invalid UTF-8
		default:
			b.WriteByte(byte(0x20 + r.Intn(0x5f)))
		}
	}
	return b.String()
}

// mangleStrA/D/D1, makeIdentifier: len(result) <= (joliet ? 2 : 1) * len(input); deterministic.
func TestConformanceNameMapping(t *testing.T) {
	for _, in := range []string{"", "\x00", "\x01", "\u0100", "\u0001", "\x00\x00", "\xff"} {
		for _, joliet := range []bool{false, true} {
			if a := makeIdentifier(in, joliet); a == dotEntryIdentifier || a == dotDotEntryIdentifier {
				t.Fatalf("makeIdentifier(%q,%v) is the identifier of a dot record", in, joliet)
			}
		}
	}
	r := rand.New(rand.NewSource(1))
	for i := 0; i < 20000; i++ {
		in := randomName(r)
		for _, joliet := range []bool{false, true} {
			max := len(in)
			if joliet {
				max = 2 * len(in)
			}
			if got := len(mangleStrA(in, joliet)); got > max {
				t.Fatalf("mangleStrA(%q,%v): %d bytes > %d", in, joliet, got, max)
			}
			if got := len(mangleStrD(in, joliet)); got > max {
				t.Fatalf("mangleStrD(%q,%v): %d bytes > %d", in, joliet, got, max)
			}
			if got := len(mangleStrD1(in, joliet)); got > max {
				t.Fatalf("mangleStrD1(%q,%v): %d bytes > %d", in, joliet, got, max)
			}
			a, b := makeIdentifier(in, joliet), makeIdentifier(in, joliet)
			if a != b || len(a) > max {
				t.Fatalf("makeIdentifier(%q,%v): %q / %q, max %d", in, joliet, a, b, max)
			}
			// axiom identOf-is-not-dot: a mapped name is never the identifier of '.' or '..'
			if a == dotEntryIdentifier || a == dotDotEntryIdentifier {
				t.Fatalf("makeIdentifier(%q,%v) is the identifier of a dot record", in, joliet)
			}
			_ = utf8.ValidString(in)
		}
	}
}

// pathTable.size / dirItemList.size: non-negative, whole sectors for directories, within the stated bounds.
func TestConformanceSizes(t *testing.T) {
	// size(): no records in any directory of the hierarchy -> 0 bytes (the clause @no-records-no-bytes)
	for n := 0; n < 5; n++ {
		l := make(dirItemList, n)
		for i := range l {
			l[i].dirEntryJoliet = []directoryEntry{{Identifier: "X"}}
		}
		if got := l.size(false); got != 0 {
			t.Fatalf("size(false) of %d directories without iso records = %d", n, got)
		}
		for i := range l {
			l[i].dirEntry, l[i].dirEntryJoliet = l[i].dirEntryJoliet, nil
		}
		if got := l.size(true); got != 0 {
			t.Fatalf("size(true) of %d directories without joliet records = %d", n, got)
		}
	}
	r := rand.New(rand.NewSource(2))
	for i := 0; i < 2000; i++ {
		var pt pathTable
		n := r.Intn(50)
		for k := 0; k < n; k++ {
			pt = append(pt, pathTableEntry{DirIdentifier: stringD1(strings.Repeat("x", r.Intn(256)))})
		}
		if s := pt.size(); s < 0 || s > sizeBytes(264*len(pt)) {
			t.Fatalf("pathTable.size() = %d for %d entries", s, len(pt))
		}
		var l dirItemList
		for d := 0; d < r.Intn(6); d++ {
			var it dirItem
			for k := 0; k < r.Intn(80); k++ {
				e := directoryEntry{Identifier: stringD1(strings.Repeat("y", r.Intn(200)))}
				it.dirEntry = append(it.dirEntry, e)
				it.dirEntryJoliet = append(it.dirEntryJoliet, e)
			}
			l = append(l, it)
		}
		for _, joliet := range []bool{false, true} {
			if s := l.size(joliet); s < 0 || s%2048 != 0 {
				t.Fatalf("dirItemList.size(%v) = %d", joliet, s)
			}
		}
	}
}

// dirItem.isDirectChild is childOf: a pure function of the two paths.
func TestConformanceIsDirectChild(t *testing.T) {
	cases := []struct {
		c, p string
		want bool
	}{{"/a/b", "/a", true}, {"/a", "/a", false}, {"/a/b/c", "/a", false}, {"/a", "/a/b", false}, {"a/b", "a", true}}
	for _, c := range cases {
		if got := (dirItem{path: c.c}).isDirectChild(dirItem{path: c.p}); got != c.want {
			t.Fatalf("isDirectChild(%q,%q) = %v", c.c, c.p, got)
		}
	}
}
