#!/bin/bash
# usage: wt_check.sh <worktree> <prop>...   - runs the checks against a scratch worktree of /repo with the contracts of
# /repo's working tree and a scratch copy of /verif (nothing is written to /repo or /verif). Test files named
# zz_demo_test.go are moved aside during the run.
WT=$1; shift
export GOFLAGS=-mod=mod GOPROXY=off GOSUMDB=off GOTOOLCHAIN=local
for f in $(cd /repo && git ls-files '*contracts_verif.go'); do cp /repo/$f $WT/$f; done
DEMOS=$(cd $WT && find . -name zz_demo_test.go)
for d in $DEMOS; do mv $WT/$d $WT/$d.keep; done
SV=$(mktemp -d /tmp/wtc.XXXXXX); ( cd /verif && tar cf - --exclude=.git --exclude=seeded --exclude=harmless --exclude=replays --exclude=engine . ) | tar xf - -C $SV
echo "$@" | tr ' ' '\n' | xargs -P 3 -I{} bash -c "cd $SV && ./bin/govc check --repo $WT --verif $SV --property {} > $SV/{}.out 2>&1"
for P in "$@"; do
  R=$(grep -E "^VIOLATION|^CHECK-BROKEN" $SV/$P.out | head -${LINES_MAX:-4})
  if [ -n "$R" ]; then echo "-- $P:"; echo "$R" | sed 's/replay=[^ ]*replays\//replay=/' | cut -c1-220; else echo "-- $P: quiet ($(tail -1 $SV/$P.out | cut -c1-120))"; fi
done
for d in $DEMOS; do mv $WT/$d.keep $WT/$d; done
rm -rf $SV
