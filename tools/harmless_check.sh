#!/bin/bash
# usage: harmless_check.sh <worktree> <id>  - stores a behaviour-preserving change under /verif/harmless/<id>/,
# applies it to /repo, runs every claimed check (3 in parallel), restores /repo and lists the checks that raised an alarm
set -u
WT=$1; ID=$2
export GOFLAGS=-mod=mod GOPROXY=off GOSUMDB=off GOTOOLCHAIN=local
OUT=/verif/harmless/$ID; mkdir -p $OUT
( cd $WT && git diff -- pkg internal cmd ':(exclude)*contracts_verif.go' > $OUT/patch.diff )
[ -s $OUT/patch.diff ] || { echo "$ID: empty patch"; exit 2; }
cd /repo && git apply $OUT/patch.diff || { echo "$ID: patch does not apply"; exit 2; }
go build ./... || { echo "$ID: does not build"; git checkout -- .; exit 2; }
PROPS=${CHECKS:-$(python3 -c "import json;print(' '.join(c['property_id'] for c in json.load(open('/verif/MANIFEST.json'))['checks']))")}
mkdir -p /tmp/harmrun; rm -f /tmp/harmrun/*
echo $PROPS | tr ' ' '\n' | xargs -P 3 -I{} bash -c "cd /verif && ./bin/govc check --property {} > /tmp/harmrun/{}.out 2>&1; echo exit=\$? >> /tmp/harmrun/{}.out"
ALARM=""
for P in $PROPS; do
  if ! grep -q "exit=0" /tmp/harmrun/$P.out || grep -qE "^VIOLATION|^CHECK-BROKEN" /tmp/harmrun/$P.out; then ALARM="$ALARM $P"; fi
done
cd /repo && git checkout -- .
echo "$ID ALARMS:$ALARM"
for P in $ALARM; do grep -E "^VIOLATION|^CHECK-BROKEN|error" /tmp/harmrun/$P.out | head -3 | cut -c1-230 | sed "s/^/    $P: /"; done
python3 - <<PY
import json
json.dump({"id":"$ID","kind":"behaviour-preserving refactoring made by a fresh sub-agent","alarms":"$ALARM".split()},open("$OUT/meta.json","w"),indent=1)
PY
