package iprange

// Conformance tests for the ASSUMED library contracts of /verif/contracts/lib/net.spec and paths.spec
// (run by the thorough tier through `go test -overlay` inside pkg/iprange; not part of the repository).

import (
	"bytes"
	"encoding/binary"
	"math/rand"
	"net"
	"path/filepath"
	"strconv"
	"strings"
	"testing"
)

func mbyte(ones, i int) int {
	switch {
	case ones >= 8*i+8:
		return 255
	case ones <= 8*i:
		return 0
	}
	return 256 - (1 << (8*i + 8 - ones))
}

func TestConformanceCIDRMaskAndSize(t *testing.T) {
	for _, bits := range []int{32, 128} {
		for ones := -1; ones <= bits+1; ones++ {
			m := net.CIDRMask(ones, bits)
			if ones < 0 || ones > bits {
				if m != nil {
					t.Fatalf("CIDRMask(%d,%d) != nil", ones, bits)
				}
				continue
			}
			if len(m)*8 != bits {
				t.Fatalf("CIDRMask(%d,%d) has %d bytes", ones, bits, len(m))
			}
			for i := range m {
				if int(m[i]) != mbyte(ones, i) {
					t.Fatalf("CIDRMask(%d,%d)[%d] = %d, mbyte says %d", ones, bits, i, m[i], mbyte(ones, i))
				}
			}
			o, b := m.Size()
			if o != ones || b != bits {
				t.Fatalf("Size of CIDRMask(%d,%d) = %d,%d", ones, bits, o, b)
			}
		}
	}
	// non-contiguous 4-byte masks: (0,0); contiguous ones: bits == 32  (exhaustive over two free bytes)
	for a := 0; a < 256; a++ {
		for b := 0; b < 256; b++ {
			for _, m := range []net.IPMask{{255, byte(a), byte(b), 0}, {byte(a), byte(b), 0, 0}, {255, 255, byte(a), byte(b)}} {
				o, bits := m.Size()
				contig := true
				seenZero := false
				for _, x := range m {
					for k := 7; k >= 0; k-- {
						bit := x>>uint(k)&1 == 1
						if bit && seenZero {
							contig = false
						}
						if !bit {
							seenZero = true
						}
					}
				}
				if contig != (bits == 32) || (!contig && o != 0) {
					t.Fatalf("Size(%v) = %d,%d contiguous=%v", m, o, bits, contig)
				}
			}
		}
	}
}

func TestConformanceIPForms(t *testing.T) {
	r := rand.New(rand.NewSource(3))
	for i := 0; i < 20000; i++ {
		ip4 := net.IP{byte(r.Intn(256)), byte(r.Intn(256)), byte(r.Intn(256)), byte(r.Intn(256))}
		ip16 := ip4.To16()
		if len(ip16) != 16 || !bytes.Equal(ip16[:12], []byte{0, 0, 0, 0, 0, 0, 0, 0, 0, 0, 255, 255}) || !bytes.Equal(ip16[12:], ip4) {
			t.Fatalf("To16(%v) = %v", ip4, []byte(ip16))
		}
		if back := ip16.To4(); len(back) != 4 || &back[0] != &ip16[12] {
			t.Fatalf("To4 of a mapped address is not its last four bytes")
		}
		v6 := make(net.IP, 16)
		r.Read(v6)
		v6[0] |= 0x20
		if v6.To4() != nil || &v6.To16()[0] != &v6[0] {
			t.Fatalf("To4/To16 of a v6 address")
		}
		if net.IP(v6[:7]).To16() != nil || net.IP(v6[:7]).To4() != nil {
			t.Fatalf("To16/To4 of a 7-byte slice")
		}
		mask := net.CIDRMask(r.Intn(33), 32)
		got := ip16.Mask(mask)
		if len(got) != 4 {
			t.Fatalf("Mask(16-byte mapped, 4-byte mask) has %d bytes", len(got))
		}
		for k := 0; k < 4; k++ {
			if got[k] != ip4[k]&mask[k] {
				t.Fatalf("Mask byte %d", k)
			}
		}
		m6 := net.CIDRMask(r.Intn(129), 128)
		g6 := v6.Mask(m6)
		for k := 0; k < 16; k++ {
			if g6[k] != v6[k]&m6[k] {
				t.Fatalf("Mask v6 byte %d", k)
			}
		}
		if v6.Mask(mask) != nil {
			t.Fatalf("Mask(v6, 4-byte mask) != nil")
		}
		// bytes.Compare on 16-byte operands = order of (be64, be64) pairs
		a, b := make([]byte, 16), make([]byte, 16)
		r.Read(a)
		r.Read(b)
		if r.Intn(3) == 0 {
			copy(b[:8], a[:8])
		}
		ah, al := binary.BigEndian.Uint64(a), binary.BigEndian.Uint64(a[8:])
		bh, bl := binary.BigEndian.Uint64(b), binary.BigEndian.Uint64(b[8:])
		want := 0
		switch {
		case ah < bh || (ah == bh && al < bl):
			want = -1
		case ah > bh || (ah == bh && al > bl):
			want = 1
		}
		if bytes.Compare(a, b) != want || bytes.Compare(nil, a) != -1 || bytes.Compare(a, nil) != 1 {
			t.Fatalf("bytes.Compare")
		}
	}
}

func TestConformanceParseAndAtoi(t *testing.T) {
	texts := []string{"192.0.2.1", "::1", "2001:db8::", "::ffff:1.2.3.4", "1.2.3", "", "1.2.3.4/24", "1.2.3.4-5", "fe80::1%eth0", " 1.2.3.4", "0x10", "12", "-3", "1e3", "+7", "007"}
	for _, s := range texts {
		ip := net.ParseIP(s)
		if ip != nil && (len(ip) != 16 || strings.ContainsAny(s, "/-")) {
			t.Fatalf("ParseIP(%q) = %v", s, ip)
		}
		n, err := strconv.Atoi(s)
		if err != nil && n != 0 {
			t.Fatalf("Atoi(%q) = %d with error", s, n)
		}
		if ip != nil && err == nil {
			t.Fatalf("%q is both an address and a number", s)
		}
	}
}

// paths.spec: a rooted path has no ".." element after Clean; Join of confined / simple elements is confined.
func hasDotDot(p string) bool {
	for _, e := range strings.Split(p, "/") {
		if e == ".." {
			return true
		}
	}
	return false
}

func TestConformancePaths(t *testing.T) {
	r := rand.New(rand.NewSource(4))
	elems := []string{"..", ".", "", "a", "b.iso", "...", "..a", "a..", "PS3ISO", " "}
	for i := 0; i < 50000; i++ {
		var parts []string
		for k := r.Intn(7); k > 0; k-- {
			parts = append(parts, elems[r.Intn(len(elems))])
		}
		p := "/" + strings.Join(parts, "/")
		if c := filepath.Clean(p); hasDotDot(c) || !strings.HasPrefix(c, "/") {
			t.Fatalf("Clean(%q) = %q", p, c)
		}
		var conf []string
		for _, e := range parts {
			if e != ".." {
				conf = append(conf, e)
			}
		}
		if j := filepath.Join(conf...); hasDotDot(j) {
			t.Fatalf("Join(%q) = %q", conf, j)
		}
		if len(conf) > 0 {
			d, f := filepath.Split(strings.Join(conf, "/"))
			if hasDotDot(d) || f == ".." || strings.Contains(f, "/") {
				t.Fatalf("Split")
			}
		}
	}
}

func TestConformanceAppendByteOrder(t *testing.T) {
	r := rand.New(rand.NewSource(5))
	for i := 0; i < 10000; i++ {
		pre := make([]byte, r.Intn(10))
		r.Read(pre)
		v16, v32 := uint16(r.Uint32()), r.Uint32()
		var le, be binary.AppendByteOrder = binary.LittleEndian, binary.BigEndian
		if x := le.AppendUint16(append([]byte{}, pre...), v16); len(x) != len(pre)+2 || !bytes.Equal(x[:len(pre)], pre) || uint16(x[len(pre)])+uint16(x[len(pre)+1])*256 != v16 {
			t.Fatalf("LE AppendUint16")
		}
		if x := be.AppendUint16(append([]byte{}, pre...), v16); uint16(x[len(pre)])*256+uint16(x[len(pre)+1]) != v16 {
			t.Fatalf("BE AppendUint16")
		}
		if x := le.AppendUint32(append([]byte{}, pre...), v32); len(x) != len(pre)+4 || binary.LittleEndian.Uint32(x[len(pre):]) != v32 {
			t.Fatalf("LE AppendUint32")
		}
		if x := be.AppendUint32(append([]byte{}, pre...), v32); binary.BigEndian.Uint32(x[len(pre):]) != v32 {
			t.Fatalf("BE AppendUint32")
		}
	}
}
