#!/usr/bin/env python3
"""Derives propmap.json function lists from the `tags` lines of the contract files in /repo,
keeping the hand-written notes in propnotes.json."""
import json, os, re, glob
V = os.path.dirname(os.path.dirname(os.path.abspath(__file__)))
notes = json.load(open(os.path.join(V, 'propnotes.json')))
funcs = {}  # prop -> list
for f in sorted(glob.glob('/repo/**/contracts_verif.go', recursive=True)):
    pkg = None
    cur = None
    for line in open(f):
        m = re.match(r'^package (\w+)', line)
        if m:
            pkg = m.group(1)
        m = re.match(r'^//@ func (\S+)', line)
        if m:
            cur = pkg + '.' + m.group(1)
            continue
        m = re.match(r'^//@\s+tags\s+(.*)$', line)
        if m and cur:
            for t in re.split(r'[,\s]+', m.group(1).strip()):
                if t:
                    funcs.setdefault(t, []).append(cur)
        if re.match(r'^//@\s+(trusted|inline)\s*$', line) and cur:
            for t in funcs:
                if cur in funcs[t]:
                    funcs[t].remove(cur)
IFACE_PREFIXES = ('fs.iso9660encodable.', 'server.Handler.', 'server.ReadFileResponseWriter.', 'proto.AccessTimeFileInfo.', 'proto.AccessChangeTimeFileInfo.', 'fs.cbcMode.')
for t in funcs:
    funcs[t] = [f for f in funcs[t] if not f.startswith(IFACE_PREFIXES)]
pm = {}
for p, n in notes.items():
    fl = list(dict.fromkeys(funcs.get(p, []) + n.get('extra_functions', [])))
    if not fl and 'effects' not in n:
        continue
    e = {k: v for k, v in n.items() if k != 'extra_functions'}
    e['functions'] = fl
    pm[p] = e
json.dump(pm, open(os.path.join(V, 'propmap.json'), 'w'), indent=1)
for p in sorted(pm):
    print(p, len(pm[p]['functions']))
