package govc

import (
	"fmt"
	"go/ast"
	"go/token"
	"go/types"
	"strings"

	"golang.org/x/tools/go/packages"
)

// ---------------------------------------------------------------------------------------------
// Loop identification
// ---------------------------------------------------------------------------------------------

// loopOrdinal: k-th loop (source order, including loops inside function literals) of its FuncDecl.
func (e *Exec) loopOrdinal(decl *ast.FuncDecl, n ast.Node) int {
	m, ok := e.loopIDs[decl]
	if !ok {
		m = map[ast.Node]int{}
		k := 0
		ast.Inspect(decl, func(x ast.Node) bool {
			switch x.(type) {
			case *ast.ForStmt, *ast.RangeStmt:
				k++
				m[x] = k
			}
			return true
		})
		e.loopIDs[decl] = m
	}
	return m[n]
}

// enclosingDecl finds the FuncDecl lexically containing pos in package pk.
func (p *Program) enclosingDecl(pk *packages.Package, pos token.Pos) *ast.FuncDecl {
	for _, f := range pk.Syntax {
		if pos < f.Pos() || pos > f.End() {
			continue
		}
		for _, d := range f.Decls {
			if fd, ok := d.(*ast.FuncDecl); ok && fd.Pos() <= pos && pos <= fd.End() {
				return fd
			}
		}
	}
	return nil
}

func (e *Exec) loopSpec(n ast.Node) (*LoopSpec, string) {
	pk := e.curPkg()
	decl := e.prog.enclosingDecl(pk, n.Pos())
	if decl == nil {
		return nil, "?"
	}
	k := e.loopOrdinal(decl, n)
	if decl == e.decl {
		key := fmt.Sprint(k)
		if e.contract != nil {
			return e.contract.Loops[key], key
		}
		return nil, key
	}
	obj, _ := pk.TypesInfo.Defs[decl.Name].(*types.Func)
	key := fmt.Sprintf("%s.%d", funcKey(obj), k)
	if e.contract != nil {
		if ls, ok := e.contract.Loops[key]; ok {
			return ls, key
		}
	}
	if c := e.prog.contractFor(obj); c != nil {
		return c.Loops[fmt.Sprint(k)], key
	}
	return nil, key
}

// loopEnv builds the spec environment for invariants of loop n.
func (e *Exec) loopEnv(st *State, n ast.Node, inner token.Pos) *SpecEnv {
	env := e.funcEnv(st, e.entry)
	base := env.goName
	frames := append([]*frame{}, e.frames...)
	lookupAt := func(pk *packages.Package, pos token.Pos, name string, s *State) (Value, bool) {
		sc := pk.Types.Scope().Innermost(pos)
		if sc == nil {
			return nil, false
		}
		_, obj := sc.LookupParent(name, pos)
		if obj == nil {
			return nil, false
		}
		if _, isVar := obj.(*types.Var); !isVar {
			return nil, false
		}
		if obj.Parent() == pk.Types.Scope() {
			return nil, false
		}
		c, ok := e.cells[obj]
		if !ok {
			return nil, false
		}
		v, ok := s.store[c]
		return v, ok
	}
	pk := e.curPkg()
	hidden := e.curHidden
	outerHidden := e.outerHidden
	env.goName = func(name string, s *State) (Value, bool) {
		if name == "$idxouter" {
			// hidden range index of the nearest enclosing range loop that has one
			if outerHidden != nil {
				v, ok := s.store[outerHidden]
				return v, ok
			}
			return nil, false
		}
		if name == "$idx" {
			if hidden != nil {
				v, ok := s.store[hidden]
				return v, ok
			}
			return nil, false
		}
		depth := 0
		for strings.HasPrefix(name, "$") && len(name) > 1 {
			name = name[1:]
			depth++
		}
		if depth == 0 {
			if v, ok := lookupAt(pk, inner, name, s); ok {
				return v, true
			}
			return base(name, s)
		}
		// walk up inline frames
		ix := len(frames) - 1
		for ix >= 0 && depth > 0 {
			fr := frames[ix]
			if fr.callPos != 0 {
				depth--
				if depth == 0 {
					if v, ok := lookupAt(fr.callPkg, fr.callPos, name, s); ok {
						return v, true
					}
					return base(name, s)
				}
			}
			ix--
		}
		return base(name, s)
	}
	// a name nothing else resolves (not a variable, ghost, let or package member): most often the loop
	// counter was renamed. The invariant is then read with the loop's own counter in its place (if that
	// reading is wrong the invariant fails - an invariant is never assumed before it has been proved).
	env.lastResort = func(name string, s *State) (Value, bool) {
		ctr := loopCounter(n)
		if ctr == nil {
			return nil, false
		}
		obj := pk.TypesInfo.Defs[ctr]
		if obj == nil {
			return nil, false
		}
		c, ok := e.cells[obj]
		if !ok {
			return nil, false
		}
		v, ok := s.store[c]
		if ok && !e.renamed[name] {
			e.renamed[name] = true
			e.warnings = append(e.warnings, "loop invariant names `"+name+"`, which does not exist: read as the loop counter `"+ctr.Name+"`")
		}
		return v, ok
	}
	return env
}

// ---------------------------------------------------------------------------------------------
// Generic loop cut
// ---------------------------------------------------------------------------------------------

type loopDesc struct {
	node  ast.Node
	label string
	inner token.Pos                   // a position inside the body (for name lookup)
	cond  func(st *State) *Term       // nil: true
	body  func(st *State) []Outcome   // body incl. per-iteration bindings
	post  func(st *State) []*State    // post statement
	auto  func(st *State) *Term       // automatic invariant (assumed, holds by construction)
	extra []*Cell                     // hidden cells to havoc
	foot  []ast.Node                  // AST nodes to scan for the footprint
}

func (e *Exec) loopCut(st *State, d loopDesc) []Outcome {
	savedHidden, savedOuter := e.curHidden, e.outerHidden
	e.outerHidden = savedHidden
	if len(d.extra) > 0 {
		e.curHidden = d.extra[0]
	} else {
		e.curHidden = nil
	}
	defer func() { e.curHidden, e.outerHidden = savedHidden, savedOuter }()
	spec, key := e.loopSpec(d.node)
	var invs []*Clause
	if spec != nil {
		invs = spec.Invariants
	}
	// 1. invariants hold on entry
	env := e.loopEnv(st, d.node, d.inner)
	env.pre = st
	for _, inv := range invs {
		env.what = fmt.Sprintf("%s loop %s invariant @%s", e.funcName(), key, inv.Label)
		e.oblige(st, "inv-init", "loop"+key+":"+inv.Label, env.evalBool(inv.Expr), d.node, inv.Tags)
	}
	// 2. havoc
	preState := st.clone()
	e.havocLoop(st, d, spec)
	env = e.loopEnv(st, d.node, d.inner)
	env.pre = preState
	for _, inv := range invs {
		env.what = fmt.Sprintf("%s loop %s invariant @%s", e.funcName(), key, inv.Label)
		st.assume(env.evalBool(inv.Expr))
	}
	if d.auto != nil {
		st.assume(d.auto(st))
	}
	if st.dead {
		return nil
	}
	// 3. guard
	var c *Term = tTrue
	if d.cond != nil {
		c = d.cond(st)
	}
	tB, fB := e.fork(st, c)
	var outs []Outcome
	if fB != nil {
		outs = append(outs, Outcome{st: fB, ctl: ctlNext})
	}
	if tB == nil {
		return outs
	}
	var m0 *Term
	if spec != nil && spec.Decreases != nil {
		env := e.loopEnv(tB, d.node, d.inner)
		env.what = e.funcName() + " loop " + key + " decreases"
		m0 = env.evalInt(spec.Decreases.Expr)
		e.oblige(tB, "decreases", "loop"+key+":bounded", mkGe(m0, tZero), d.node, spec.Decreases.Tags)
	}
	for _, o := range d.body(tB) {
		switch {
		case o.ctl == ctlNext || (o.ctl == ctlContinue && (o.label == "" || o.label == d.label)):
			ends := []*State{o.st}
			if d.post != nil {
				ends = d.post(o.st)
			}
			for _, s := range ends {
				e.cover(s, "loop"+key, d.node)
				env := e.loopEnv(s, d.node, d.inner)
				env.pre = preState
				for _, inv := range invs {
					env.what = fmt.Sprintf("%s loop %s invariant @%s", e.funcName(), key, inv.Label)
					e.oblige(s, "inv-keep", "loop"+key+":"+inv.Label, env.evalBool(inv.Expr), d.node, inv.Tags)
				}
				if m0 != nil {
					env.what = e.funcName() + " loop " + key + " decreases"
					m1 := env.evalInt(spec.Decreases.Expr)
					e.oblige(s, "decreases", "loop"+key+":smaller", mkLt(m1, m0), d.node, spec.Decreases.Tags)
				}
			}
		case o.ctl == ctlBreak && (o.label == "" || o.label == d.label):
			outs = append(outs, Outcome{st: o.st, ctl: ctlNext})
		case o.ctl == ctlDead:
		default:
			outs = append(outs, o)
		}
	}
	return outs
}

// ---------------------------------------------------------------------------------------------
// for
// ---------------------------------------------------------------------------------------------

func (e *Exec) execFor(st *State, x *ast.ForStmt, label string) []Outcome {
	states := []*State{st}
	if x.Init != nil {
		states = nil
		for _, o := range e.execStmt(st, x.Init) {
			if o.ctl != ctlNext {
				panic(unsupported("control flow in for-init"))
			}
			states = append(states, o.st)
		}
	}
	var outs []Outcome
	for _, s := range states {
		d := loopDesc{node: x, label: label, inner: x.Body.Lbrace + 1, foot: []ast.Node{x.Body}}
		if x.Cond != nil {
			d.cond = func(st *State) *Term { return asTerm(e.eval(st, x.Cond)) }
			d.foot = append(d.foot, x.Cond)
		}
		d.body = func(st *State) []Outcome { return e.execBlock(st, x.Body.List) }
		if x.Post != nil {
			d.foot = append(d.foot, x.Post)
			d.post = func(st *State) []*State {
				var r []*State
				for _, o := range e.execStmt(st, x.Post) {
					if o.ctl == ctlNext {
						r = append(r, o.st)
					}
				}
				return r
			}
		}
		d.auto = e.autoForInvariant(s, x)
		outs = append(outs, e.loopCut(s, d)...)
	}
	return outs
}

// autoForInvariant: for `for i := A; …; i++` where the body does not assign i: i >= A.
func (e *Exec) autoForInvariant(st *State, x *ast.ForStmt) func(*State) *Term {
	as, ok := x.Init.(*ast.AssignStmt)
	if !ok || as.Tok != token.DEFINE || len(as.Lhs) != 1 {
		return nil
	}
	id, ok := as.Lhs[0].(*ast.Ident)
	if !ok {
		return nil
	}
	inc, ok := x.Post.(*ast.IncDecStmt)
	if !ok || inc.Tok != token.INC {
		return nil
	}
	pid, ok := inc.X.(*ast.Ident)
	if !ok || pid.Name != id.Name {
		return nil
	}
	obj := e.info().Defs[id]
	if obj == nil || reprOf(obj.Type()) != rInt {
		return nil
	}
	assigned := false
	ast.Inspect(x.Body, func(n ast.Node) bool {
		switch a := n.(type) {
		case *ast.AssignStmt:
			for _, l := range a.Lhs {
				if li, ok := l.(*ast.Ident); ok && e.info().Uses[li] == obj {
					assigned = true
				}
			}
		case *ast.IncDecStmt:
			if li, ok := a.X.(*ast.Ident); ok && e.info().Uses[li] == obj {
				assigned = true
			}
		case *ast.UnaryExpr:
			if a.Op == token.AND {
				if li, ok := a.X.(*ast.Ident); ok && e.info().Uses[li] == obj {
					assigned = true
				}
			}
		}
		return true
	})
	if assigned {
		return nil
	}
	cell := e.cellFor(obj)
	init := asTerm(st.store[cell])
	return func(s *State) *Term { return mkGe(asTerm(s.store[cell]), init) }
}

// ---------------------------------------------------------------------------------------------
// range
// ---------------------------------------------------------------------------------------------

func (e *Exec) execRange(st *State, x *ast.RangeStmt, label string) []Outcome {
	info := e.info()
	xt := info.TypeOf(x.X)
	bindVar := func(s *State, id ast.Expr, v Value) {
		if id == nil {
			return
		}
		ident, ok := id.(*ast.Ident)
		if ok && ident.Name == "_" {
			return
		}
		if x.Tok == token.DEFINE && ok {
			obj := info.Defs[ident]
			s.store[e.cellFor(obj)] = e.convertAssign(s, v, obj.Type())
			return
		}
		loc := e.lvalue(s, id)
		e.storeLoc(s, loc, e.convertAssign(s, v, loc.ltype()))
	}
	// range over function
	if sig, ok := xt.Underlying().(*types.Signature); ok {
		return e.execRangeFunc(st, x, sig, label)
	}
	switch u := xt.Underlying().(type) {
	case *types.Basic:
		if u.Info()&types.IsInteger != 0 {
			n := asTerm(e.eval(st, x.X))
			idx := e.newCell("$i", xt)
			st.store[idx] = Scalar{tZero, xt}
			d := loopDesc{node: x, label: label, inner: x.Body.Lbrace + 1, foot: []ast.Node{x.Body}, extra: []*Cell{idx}}
			d.cond = func(s *State) *Term { return mkLt(asTerm(s.store[idx]), n) }
			d.body = func(s *State) []Outcome {
				bindVar(s, x.Key, s.store[idx])
				return e.execBlock(s, x.Body.List)
			}
			d.post = func(s *State) []*State {
				s.store[idx] = Scalar{mkAdd(asTerm(s.store[idx]), tOne), xt}
				return []*State{s}
			}
			d.auto = func(s *State) *Term {
				i := asTerm(s.store[idx])
				return mkAnd(mkLe(tZero, i), mkOr(mkLe(i, n), mkLt(n, tZero)))
			}
			return e.loopCut(st, d)
		}
		if u.Info()&types.IsString != 0 {
			return e.execRangeString(st, x, label, bindVar)
		}
	case *types.Slice, *types.Array, *types.Pointer:
		var seq Value
		if p, isPtr := u.(*types.Pointer); isPtr {
			if _, isArr := p.Elem().Underlying().(*types.Array); !isArr {
				panic(unsupported("range over pointer"))
			}
			seq = e.loadLoc(st, e.derefLoc(st, e.eval(st, x.X), x.X))
		} else {
			seq = e.eval(st, x.X)
		}
		sv, _ := toSlice(seq)
		intT := types.Typ[types.Int]
		spec, _ := e.loopSpec(x)
		// exact unrolling for constant-length sequences without a loop contract
		if av, isArr := seq.(ArrayVal); isArr && av.N <= 16 && (spec == nil || len(spec.Invariants) == 0 || spec.Unroll) {
			return e.unrollRange(st, x, label, sv, av.N, bindVar)
		}
		if sv.Len.isInt() && sv.Len.Val.IsInt64() && sv.Len.Val.Int64() <= 16 && (spec == nil || len(spec.Invariants) == 0 || spec.Unroll) {
			return e.unrollRange(st, x, label, sv, sv.Len.Val.Int64(), bindVar)
		}
		idx := e.newCell("$i", intT)
		st.store[idx] = Scalar{tZero, intT}
		d := loopDesc{node: x, label: label, inner: x.Body.Lbrace + 1, foot: []ast.Node{x.Body}, extra: []*Cell{idx}}
		d.cond = func(s *State) *Term { return mkLt(asTerm(s.store[idx]), sv.Len) }
		d.body = func(s *State) []Outcome {
			i := asTerm(s.store[idx])
			bindVar(s, x.Key, Scalar{i, intT})
			if x.Value != nil {
				bindVar(s, x.Value, e.copyValue(s, e.loadLoc(s, sliceElemLoc(sv, i))))
			}
			return e.execBlock(s, x.Body.List)
		}
		d.post = func(s *State) []*State {
			s.store[idx] = Scalar{mkAdd(asTerm(s.store[idx]), tOne), intT}
			return []*State{s}
		}
		d.auto = func(s *State) *Term {
			i := asTerm(s.store[idx])
			return mkAnd(mkLe(tZero, i), mkLe(i, sv.Len))
		}
		// the hidden index is visible to invariants through the key variable's name (bound in body);
		// expose it as "$idx" too
		outs := e.withHiddenIndex(x, idx, func() []Outcome { return e.loopCut(st, d) })
		return outs
	}
	panic(unsupported("range over " + xt.String()))
}

// withHiddenIndex makes the hidden range index available to invariants under the key's name.
func (e *Exec) withHiddenIndex(x *ast.RangeStmt, idx *Cell, run func() []Outcome) []Outcome {
	if id, ok := x.Key.(*ast.Ident); ok && id.Name != "_" && x.Tok == token.DEFINE {
		if obj := e.info().Defs[id]; obj != nil {
			// alias: the key variable shares the hidden cell while invariants are evaluated
			prev, had := e.cells[obj]
			e.cells[obj] = idx
			defer func() {
				if had {
					e.cells[obj] = prev
				}
			}()
		}
	}
	return run()
}

func (e *Exec) unrollRange(st *State, x *ast.RangeStmt, label string, sv SliceVal, n int64,
	bindVar func(*State, ast.Expr, Value)) []Outcome {
	intT := types.Typ[types.Int]
	cur := []*State{st}
	var outs []Outcome
	for k := int64(0); k < n && len(cur) > 0; k++ {
		var next []*State
		for _, s := range cur {
			bindVar(s, x.Key, Scalar{mkInt64(k), intT})
			if x.Value != nil {
				bindVar(s, x.Value, e.copyValue(s, e.loadLoc(s, sliceElemLoc(sv, mkInt64(k)))))
			}
			for _, o := range e.execBlock(s, x.Body.List) {
				switch {
				case o.ctl == ctlNext || (o.ctl == ctlContinue && (o.label == "" || o.label == label)):
					next = append(next, o.st)
				case o.ctl == ctlBreak && (o.label == "" || o.label == label):
					outs = append(outs, Outcome{st: o.st, ctl: ctlNext})
				case o.ctl == ctlDead:
				default:
					outs = append(outs, o)
				}
			}
		}
		cur = next
	}
	for _, s := range cur {
		outs = append(outs, Outcome{st: s, ctl: ctlNext})
	}
	return outs
}

// range over a string: index i and rune c. Modelled at byte level for ASCII: if c < 0x80 then
// c == s[i] and the next index is i+1; otherwise s[i] >= 0x80 and the next index is in (i, len].
func (e *Exec) execRangeString(st *State, x *ast.RangeStmt, label string, bindVar func(*State, ast.Expr, Value)) []Outcome {
	s := asTerm(e.eval(st, x.X))
	intT := types.Typ[types.Int]
	runeT := types.Typ[types.Rune]
	idx := e.newCell("$i", intT)
	st.store[idx] = Scalar{tZero, intT}
	wcell := e.newCell("$w", intT)
	st.store[wcell] = Scalar{tOne, intT}
	d := loopDesc{node: x, label: label, inner: x.Body.Lbrace + 1, foot: []ast.Node{x.Body}, extra: []*Cell{idx, wcell}}
	d.cond = func(s2 *State) *Term { return mkLt(asTerm(s2.store[idx]), strLen(s)) }
	d.body = func(s2 *State) []Outcome {
		i := asTerm(s2.store[idx])
		c := e.nm.fresh("rune", SInt)
		w := e.nm.fresh("rw", SInt)
		b := strByte(s, i)
		s2.assume(mkAnd(mkLe(tZero, c), mkLe(c, mkInt64(0x10FFFF))))
		s2.assume(mkAnd(mkLe(tZero, b), mkLe(b, mkInt64(255))))
		s2.assume(mkIte(mkLt(b, mkInt64(0x80)), mkAnd(mkEq(c, b), mkEq(w, tOne)),
			mkAnd(mkGe(c, mkInt64(0x80)), mkLe(tOne, w), mkLe(w, mkInt64(4)), mkLe(mkAdd(i, w), strLen(s)))))
		// the bytes skipped by a multi-byte rune are UTF-8 continuation bytes (>= 0x80)
		kv := mkVar("x!utf8", SInt)
		s2.assume(mkForall([]*Term{kv}, mkImplies(mkAnd(mkLt(i, kv), mkLt(kv, mkAdd(i, w))), mkGe(strByte(s, kv), mkInt64(0x80))), strByte(s, kv)))
		s2.store[wcell] = Scalar{w, intT}
		bindVar(s2, x.Key, Scalar{i, intT})
		if x.Value != nil {
			bindVar(s2, x.Value, Scalar{c, runeT})
		}
		return e.execBlock(s2, x.Body.List)
	}
	d.post = func(s2 *State) []*State {
		s2.store[idx] = Scalar{mkAdd(asTerm(s2.store[idx]), asTerm(s2.store[wcell])), intT}
		return []*State{s2}
	}
	d.auto = func(s2 *State) *Term {
		i := asTerm(s2.store[idx])
		return mkAnd(mkLe(tZero, i), mkLe(i, strLen(s)))
	}
	e.assumptions["range over string is modelled per byte for ASCII runes; multi-byte runes advance by 1..4 bytes over continuation bytes >= 0x80 (UTF-8 decoding not modelled further)"] = true
	return e.withHiddenIndex(x, idx, func() []Outcome { return e.loopCut(st, d) })
}

// ---------------------------------------------------------------------------------------------
// range over an in-module iterator function (mechanical inlining of the producer)
// ---------------------------------------------------------------------------------------------

func (e *Exec) execRangeFunc(st *State, x *ast.RangeStmt, sig *types.Signature, label string) []Outcome {
	// Evaluate the producer expression: must be a call to a module function returning a closure.
	var iters []stVal
	call, ok := ast.Unparen(x.X).(*ast.CallExpr)
	if !ok {
		panic(unsupported("range over function value that is not a call"))
	}
	fobj := e.calleeFunc(call)
	if fobj == nil || !inModule(fobj.Pkg()) {
		panic(unsupported("range over function from outside the module"))
	}
	decl := e.prog.decls[fobj.Origin()]
	if decl == nil {
		panic(unsupported("iterator producer without source"))
	}
	iters = e.inlineCall(st, call, &inlineInfo{fn: fobj, decl: decl, pkg: e.prog.declPkg[fobj.Origin()]})
	var outs []Outcome
	ownerIx := len(e.frames) - 1
	for _, it := range iters {
		clo, ok := it.v.(ClosureVal)
		if !ok {
			panic(unsupported("iterator producer did not return a function literal"))
		}
		// call closure with yield bound to the range body
		yb := &yieldBinding{rng: x, frameIx: ownerIx}
		res := e.inlineClosureYield(it.st, clo, yb, x)
		for _, r := range res {
			switch {
			case r.ctl == ctlNext:
				outs = append(outs, r)
			case r.ctl == ctlBreak && (r.label == "" || r.label == label):
				outs = append(outs, Outcome{st: r.st, ctl: ctlNext})
			default:
				outs = append(outs, r)
			}
		}
	}
	return outs
}

// yieldCond recognises `if !yield(v) { return }` inside an inlined producer and executes the
// consumer's loop body in its place.
func (e *Exec) yieldCond(st *State, x *ast.IfStmt) []Outcome {
	fr := e.top()
	if fr.yield == nil || x.Else != nil || x.Init != nil {
		return nil
	}
	un, ok := ast.Unparen(x.Cond).(*ast.UnaryExpr)
	if !ok || un.Op != token.NOT {
		return nil
	}
	call, ok := ast.Unparen(un.X).(*ast.CallExpr)
	if !ok {
		return nil
	}
	id, ok := ast.Unparen(call.Fun).(*ast.Ident)
	if !ok || e.info().Uses[id] != fr.yield.obj {
		return nil
	}
	if len(x.Body.List) != 1 {
		return nil
	}
	if r, ok := x.Body.List[0].(*ast.ReturnStmt); !ok || len(r.Results) != 0 {
		return nil
	}
	var args []Value
	for _, a := range call.Args {
		args = append(args, e.eval(st, a))
	}
	rng := fr.yield.rng
	owner := e.frames[fr.yield.frameIx]
	// execute the consumer body in the owner's frame context
	saved := e.frames
	e.frames = append(append([]*frame{}, e.frames...), owner)
	defer func() { e.frames = saved }()
	info := owner.pkg.TypesInfo
	bind := func(id ast.Expr, v Value) {
		if id == nil {
			return
		}
		ident, ok := id.(*ast.Ident)
		if ok && ident.Name == "_" {
			return
		}
		if rng.Tok == token.DEFINE && ok {
			obj := info.Defs[ident]
			st.store[e.cellFor(obj)] = v
			return
		}
		loc := e.lvalue(st, id)
		e.storeLoc(st, loc, v)
	}
	if len(args) > 0 {
		bind(rng.Key, args[0])
	}
	if len(args) > 1 {
		bind(rng.Value, args[1])
	}
	var outs []Outcome
	for _, o := range e.execBlock(st, rng.Body.List) {
		switch {
		case o.ctl == ctlNext || (o.ctl == ctlContinue && o.label == ""):
			// yield returned true: continue after the if
			outs = append(outs, Outcome{st: o.st, ctl: ctlNext})
		case o.ctl == ctlBreak && o.label == "":
			// yield returned false: the producer returns
			outs = append(outs, Outcome{st: o.st, ctl: ctlReturn, frame: fr.id})
		default:
			outs = append(outs, o)
		}
	}
	return outs
}

// loopCounter: the single variable a for statement declares in its init clause, or the key of a range.
func loopCounter(n ast.Node) *ast.Ident {
	switch x := n.(type) {
	case *ast.ForStmt:
		if as, ok := x.Init.(*ast.AssignStmt); ok && as.Tok == token.DEFINE && len(as.Lhs) == 1 {
			if id, ok := as.Lhs[0].(*ast.Ident); ok {
				return id
			}
		}
	case *ast.RangeStmt:
		if x.Tok == token.DEFINE {
			if id, ok := x.Key.(*ast.Ident); ok && id.Name != "_" {
				return id
			}
		}
	}
	return nil
}
