package govc

import (
	"fmt"
	"go/ast"
	"go/types"
	"math/big"
	"strings"
)

// ---------------------------------------------------------------------------------------------
// Symbolic Go values
// ---------------------------------------------------------------------------------------------

type Value interface{ vtype() types.Type }

// Scalar: integers, booleans, strings, heap references (pointers to heap objects, interface
// values, funcs, maps, chans, type-parameter values) and opaque library structs.
type Scalar struct {
	T   *Term
	Typ types.Type
}

// StructVal: a by-value struct of a type declared in the module under verification.
type StructVal struct {
	Fields map[string]Value
	Typ    types.Type
}

// SliceVal: slice header; the backing array lives in State.mem keyed by the element type.
type SliceVal struct {
	Arr, Off, Len, Cap *Term
	Typ                types.Type
}

// ArrayVal: fixed-size array, memory resident (Arr is an array id); value-copied on assignment.
type ArrayVal struct {
	Arr *Term
	N   int64
	Typ types.Type
}

// PtrVal: a pointer that is not a plain heap reference (element / local / field pointer).
type PtrVal struct {
	Loc Loc
	Typ types.Type
}

// ClosureVal: function literal bound to a local; executed by inlining.
type ClosureVal struct {
	Lit  *ast.FuncLit
	Decl *ast.FuncDecl // for inlined named functions
	Typ  types.Type
}

// IterVal: result of calling an in-repo function that returns an iter.Seq (range-over-func producer).
type IterVal struct {
	Clo *ClosureVal
	Typ types.Type
}

type TupleVal struct {
	Vals []Value
	Typ  types.Type
}

func (v Scalar) vtype() types.Type     { return v.Typ }
func (v StructVal) vtype() types.Type  { return v.Typ }
func (v SliceVal) vtype() types.Type   { return v.Typ }
func (v ArrayVal) vtype() types.Type   { return v.Typ }
func (v PtrVal) vtype() types.Type     { return v.Typ }
func (v ClosureVal) vtype() types.Type { return v.Typ }
func (v IterVal) vtype() types.Type    { return v.Typ }
func (v TupleVal) vtype() types.Type   { return v.Typ }

// ---------------------------------------------------------------------------------------------
// Type classification
// ---------------------------------------------------------------------------------------------

type reprKind int

const (
	rInt reprKind = iota
	rBool
	rString
	rRef    // heap reference / interface / func / map / chan / typeparam
	rOpaque // library struct by value (time.Time …)
	rStruct
	rSlice
	rArray
	rTuple
	rUnsupported
)

// modulePrefix is the import-path prefix of the module under verification.
var modulePrefix = "github.com/xakep666/ps3netsrv-go"

func inModule(pkg *types.Package) bool {
	return pkg != nil && strings.HasPrefix(pkg.Path(), modulePrefix)
}

func reprOf(t types.Type) reprKind {
	switch u := t.(type) {
	case *types.Named:
		if st, ok := u.Underlying().(*types.Struct); ok {
			if u.Obj() != nil && inModule(u.Obj().Pkg()) {
				// `type T lib.S`: the fields belong to a library package, the value stays opaque
				if st.NumFields() > 0 && st.Field(0).Pkg() != nil && !inModule(st.Field(0).Pkg()) {
					return rOpaque
				}
				return rStruct
			}
			return rOpaque
		}
		return reprOf(u.Underlying())
	case *types.Alias:
		return reprOf(types.Unalias(u))
	case *types.Basic:
		switch {
		case u.Info()&types.IsBoolean != 0:
			return rBool
		case u.Info()&types.IsInteger != 0:
			return rInt
		case u.Info()&types.IsString != 0:
			return rString
		case u.Kind() == types.UntypedNil:
			return rRef
		case u.Kind() == types.UnsafePointer:
			return rUnsupported
		}
		return rUnsupported // floats, complex
	case *types.Pointer, *types.Interface, *types.Signature, *types.Map, *types.Chan, *types.TypeParam:
		return rRef
	case *types.Struct:
		return rStruct
	case *types.Slice:
		return rSlice
	case *types.Array:
		return rArray
	case *types.Tuple:
		return rTuple
	}
	return rUnsupported
}

func sortOfScalar(t types.Type) *Sort {
	switch reprOf(t) {
	case rInt, rRef, rOpaque:
		return SInt
	case rBool:
		return SBool
	case rString:
		return SStr
	}
	panic(fmt.Sprintf("sortOfScalar: %s is not scalar", t))
}

// intRange returns the numeric range of an integer type.
func intRange(t types.Type) (lo, hi *big.Int, ok bool) {
	b, isB := t.Underlying().(*types.Basic)
	if !isB || b.Info()&types.IsInteger == 0 {
		return nil, nil, false
	}
	bits := 64
	signed := true
	switch b.Kind() {
	case types.Int8:
		bits = 8
	case types.Int16:
		bits = 16
	case types.Int32:
		bits = 32
	case types.Int64, types.Int:
		bits = 64
	case types.Uint8:
		bits, signed = 8, false
	case types.Uint16:
		bits, signed = 16, false
	case types.Uint32:
		bits, signed = 32, false
	case types.Uint64, types.Uint, types.Uintptr:
		bits, signed = 64, false
	case types.UntypedInt, types.UntypedRune:
		return nil, nil, false
	}
	one := big.NewInt(1)
	if signed {
		hi = new(big.Int).Sub(new(big.Int).Lsh(one, uint(bits-1)), one)
		lo = new(big.Int).Neg(new(big.Int).Lsh(one, uint(bits-1)))
	} else {
		lo = big.NewInt(0)
		hi = new(big.Int).Sub(new(big.Int).Lsh(one, uint(bits)), one)
	}
	return lo, hi, true
}

func inRangeTerm(t *Term, typ types.Type) *Term {
	lo, hi, ok := intRange(typ)
	if !ok {
		return tTrue
	}
	return mkAnd(mkLe(mkBig(lo), t), mkLe(t, mkBig(hi)))
}

// typeKey gives a stable short key for a type (used for heap/memory families).
func typeKey(t types.Type) string {
	switch u := t.(type) {
	case *types.Alias:
		return typeKey(types.Unalias(u))
	case *types.Named:
		o := u.Obj()
		k := o.Name()
		if o.Pkg() != nil {
			k = o.Pkg().Name() + "." + k
		}
		if ta := u.TypeArgs(); ta != nil && ta.Len() > 0 {
			var as []string
			for i := 0; i < ta.Len(); i++ {
				as = append(as, typeKey(ta.At(i)))
			}
			k += "[" + strings.Join(as, ",") + "]"
		}
		return k
	case *types.Pointer:
		return "*" + typeKey(u.Elem())
	case *types.Slice:
		return "[]" + typeKey(u.Elem())
	case *types.Array:
		return fmt.Sprintf("[%d]%s", u.Len(), typeKey(u.Elem()))
	case *types.Basic:
		switch u.Kind() {
		case types.Uint8:
			return "byte"
		case types.Int32:
			return "int32"
		}
		return u.Name()
	case *types.TypeParam:
		return u.Obj().Name()
	case *types.Interface:
		if u.Empty() {
			return "any"
		}
		return "iface"
	case *types.Struct:
		return "struct"
	case *types.Signature:
		return "func"
	}
	return t.String()
}

// memFamily is the key of the memory family holding elements of type elem.
// Integer element types are keyed by their basic kind so that []byte and iso9660encoder share memory.
func memFamily(elem types.Type) string {
	switch reprOf(elem) {
	case rInt:
		if b, ok := elem.Underlying().(*types.Basic); ok {
			return typeKey(b)
		}
	case rBool:
		return "bool"
	case rString:
		return "string"
	case rRef:
		return "ref"
	case rOpaque:
		return "opaque." + typeKey(elem)
	case rSlice:
		return "[]" + memFamily(elem.Underlying().(*types.Slice).Elem())
	case rArray:
		a := elem.Underlying().(*types.Array)
		return fmt.Sprintf("[%d]%s", a.Len(), memFamily(a.Elem()))
	}
	return typeKey(elem)
}

// heapFamily is the key of the heap family of objects of type t (pointee type).
func heapFamily(t types.Type) string { return typeKey(t) }

// ---------------------------------------------------------------------------------------------
// Layout: the scalar leaves of a type
// ---------------------------------------------------------------------------------------------

type leaf struct {
	Path string
	Sort *Sort
	Typ  types.Type // nil for header components
}

func structFields(t types.Type) []*types.Var {
	s, ok := t.Underlying().(*types.Struct)
	if !ok {
		return nil
	}
	var out []*types.Var
	for i := 0; i < s.NumFields(); i++ {
		out = append(out, s.Field(i))
	}
	return out
}

func leavesOf(t types.Type, prefix string, out *[]leaf) {
	switch reprOf(t) {
	case rInt, rBool, rString, rRef, rOpaque:
		*out = append(*out, leaf{prefix, sortOfScalar(t), t})
	case rStruct:
		for _, f := range structFields(t) {
			leavesOf(f.Type(), prefix+"."+f.Name(), out)
		}
	case rSlice:
		for _, c := range []string{"$arr", "$off", "$len", "$cap"} {
			*out = append(*out, leaf{prefix + "." + c, SInt, nil})
		}
	case rArray:
		*out = append(*out, leaf{prefix + ".$arr", SInt, nil})
	default:
		panic(unsupported(fmt.Sprintf("type %s in memory layout", t)))
	}
}

// buildValue assembles a Value of type t from a leaf getter.
func buildValue(t types.Type, prefix string, get func(path string, s *Sort, typ types.Type) *Term) Value {
	switch reprOf(t) {
	case rInt, rBool, rString, rRef, rOpaque:
		if et, ok := interiorElem(t); ok {
			return ptrFromTerm(get(prefix, SInt, t), et, t)
		}
		return Scalar{get(prefix, sortOfScalar(t), t), t}
	case rStruct:
		sv := StructVal{Fields: map[string]Value{}, Typ: t}
		for _, f := range structFields(t) {
			sv.Fields[f.Name()] = buildValue(f.Type(), prefix+"."+f.Name(), get)
		}
		return sv
	case rSlice:
		return SliceVal{
			Arr: get(prefix+".$arr", SInt, nil), Off: get(prefix+".$off", SInt, nil),
			Len: get(prefix+".$len", SInt, nil), Cap: get(prefix+".$cap", SInt, nil), Typ: t}
	case rArray:
		return ArrayVal{Arr: get(prefix+".$arr", SInt, nil), N: t.Underlying().(*types.Array).Len(), Typ: t}
	}
	panic(unsupported(fmt.Sprintf("value of type %s", t)))
}

// flattenValue enumerates the leaves of a value.
func flattenValue(v Value, prefix string, put func(path string, t *Term)) {
	switch x := v.(type) {
	case Scalar:
		put(prefix, x.T)
	case StructVal:
		for _, f := range structFields(x.Typ) {
			fv, ok := x.Fields[f.Name()]
			if !ok {
				panic("flattenValue: missing field " + f.Name())
			}
			flattenValue(fv, prefix+"."+f.Name(), put)
		}
	case SliceVal:
		put(prefix+".$arr", x.Arr)
		put(prefix+".$off", x.Off)
		put(prefix+".$len", x.Len)
		put(prefix+".$cap", x.Cap)
	case ArrayVal:
		put(prefix+".$arr", x.Arr)
	case PtrVal:
		// only plain heap pointers can be flattened
		if hl, ok := x.Loc.(*HeapLoc); ok && hl.Path == "" {
			put(prefix, hl.Ref)
			return
		}
		if ml, ok := x.Loc.(*MemLoc); ok && !ml.Whole && ml.Path == "" {
			put(prefix, ptrTerm(ml))
			return
		}
		panic(unsupported("storing an interior pointer into heap/memory"))
	default:
		panic(unsupported(fmt.Sprintf("flatten of %T", v)))
	}
}

type unsupportedErr struct{ msg string }

func (u unsupportedErr) Error() string { return "UNSUPPORTED: " + u.msg }

func unsupported(msg string) unsupportedErr { return unsupportedErr{msg} }

// ---------------------------------------------------------------------------------------------
// Locations
// ---------------------------------------------------------------------------------------------

type Loc interface {
	ltype() types.Type
}

// LocalLoc: a local variable (or a field path inside a by-value struct local).
type LocalLoc struct {
	Cell *Cell
	Path []string
	Typ  types.Type
}

// HeapLoc: a field path of a heap object.
type HeapLoc struct {
	Fam  string // family of the root object type
	Ref  *Term
	Path string // ".f.g"
	Typ  types.Type
}

// MemLoc: a field path inside an element of a backing array.
type MemLoc struct {
	Fam   string // family of the element type
	Arr   *Term
	Idx   *Term
	Path  string
	Typ   types.Type
	Whole bool // denotes every element of the backing array (modifies elems(s))
}

func (l *LocalLoc) ltype() types.Type { return l.Typ }
func (l *HeapLoc) ltype() types.Type  { return l.Typ }
func (l *MemLoc) ltype() types.Type   { return l.Typ }

// Cell is a mutable local variable slot (shared by closures that capture it).
type Cell struct {
	Name string
	Typ  types.Type
	id   int
}

func fieldLoc(l Loc, name string, ft types.Type) Loc {
	switch x := l.(type) {
	case *LocalLoc:
		p := append(append([]string{}, x.Path...), name)
		return &LocalLoc{Cell: x.Cell, Path: p, Typ: ft}
	case *HeapLoc:
		return &HeapLoc{Fam: x.Fam, Ref: x.Ref, Path: x.Path + "." + name, Typ: ft}
	case *MemLoc:
		return &MemLoc{Fam: x.Fam, Arr: x.Arr, Idx: x.Idx, Path: x.Path + "." + name, Typ: ft, Whole: x.Whole}
	}
	panic("fieldLoc")
}

func asTerm(v Value) *Term {
	switch x := v.(type) {
	case Scalar:
		return x.T
	case PtrVal:
		if hl, ok := x.Loc.(*HeapLoc); ok && hl.Path == "" {
			return hl.Ref
		}
		if ml, ok := x.Loc.(*MemLoc); ok && !ml.Whole && ml.Path == "" {
			return ptrTerm(ml)
		}
		panic(unsupported("interior pointer used as a scalar"))
	}
	panic(unsupported(fmt.Sprintf("value %T used as scalar", v)))
}

// ---------------------------------------------------------------------------------------------
// Interior pointer types ("interior pkg.T" in a contract file): every *T points at an element of a
// []T backing array (the only way such pointers are made in this code base: &s[i]). A *T is then the
// pair (array id, absolute index), encoded as one integer ptr!mk(arr, idx) when it is stored in a
// heap or memory cell; nil is the pointer whose array id is 0.
// ---------------------------------------------------------------------------------------------

var interiorTypes = map[string]bool{}

func interiorElem(t types.Type) (types.Type, bool) {
	if t == nil || len(interiorTypes) == 0 {
		return nil, false
	}
	pt, ok := t.Underlying().(*types.Pointer)
	if !ok {
		return nil, false
	}
	if interiorTypes[typeKey(pt.Elem())] {
		return pt.Elem(), true
	}
	return nil, false
}

func ptrFromTerm(p *Term, elem, ptrT types.Type) PtrVal {
	var arr, idx *Term
	if p.Op == "app" && p.Name == "ptr!mk" {
		arr, idx = p.Args[0], p.Args[1]
	} else if p.isInt() && p.Val.Sign() == 0 {
		arr, idx = tZero, tZero
	} else {
		arr, idx = mkApp("ptr!arr", SInt, p), mkApp("ptr!idx", SInt, p)
	}
	return PtrVal{Loc: &MemLoc{Fam: memFamily(elem), Arr: arr, Idx: idx, Typ: elem}, Typ: ptrT}
}

func ptrTerm(ml *MemLoc) *Term {
	if ml.Arr.Op == "app" && ml.Arr.Name == "ptr!arr" && ml.Idx.Op == "app" && ml.Idx.Name == "ptr!idx" && ml.Arr.Args[0] == ml.Idx.Args[0] {
		return ml.Arr.Args[0]
	}
	if ml.Arr.isInt() && ml.Arr.Val.Sign() == 0 {
		return tZero
	}
	return mkApp("ptr!mk", SInt, ml.Arr, ml.Idx)
}
