; lexicographic order of (hi, lo) 64-bit pairs = unsigned order of the 128-bit address
(set-logic QF_BV)
(declare-const a (_ BitVec 128))
(declare-const b (_ BitVec 128))
(define-fun hi ((v (_ BitVec 128))) (_ BitVec 64) ((_ extract 127 64) v))
(define-fun lo ((v (_ BitVec 128))) (_ BitVec 64) ((_ extract 63 0) v))
(assert (not (= (bvule a b) (or (bvult (hi a) (hi b)) (and (= (hi a) (hi b)) (bvule (lo a) (lo b)))))))
(check-sat)
