package govc

import (
	"math/big"
	"bytes"
	"context"
	"fmt"
	"os"
	"os/exec"
	"path/filepath"
	"regexp"
	"sort"
	"strings"
	"sync"
	"time"
)

// ---------------------------------------------------------------------------------------------
// Query construction
// ---------------------------------------------------------------------------------------------

type axiomTerm struct {
	name  string
	term  *Term
	funcs map[string]bool
}

func (p *Program) axiomTerms() []axiomTerm {
	if p.axioms != nil {
		return p.axioms
	}
	e := &Exec{prog: p, oblSeen: map[string]int{}, globalsUsed: map[string]*typesVar{}, assumptions: map[string]bool{}, lib: &libModel{}}
	st := newState()
	for _, a := range p.specs.Axioms {
		env := &SpecEnv{e: e, st: st, old: st, vars: map[string]Value{}, what: "axiom " + a.Name}
		if pk := p.pkgs[a.Pkg]; pk != nil && a.Pkg != "" {
			env.pkg = pk.Types
		}
		t := env.evalBool(a.Expr)
		fs := map[string]bool{}
		funcNames(t, fs)
		p.axioms = append(p.axioms, axiomTerm{a.Name, t, fs})
	}
	if p.axioms == nil {
		p.axioms = []axiomTerm{}
	}
	return p.axioms
}

var strLitRe = regexp.MustCompile(`^str!`)

func (p *Program) buildQuery(o *Obligation, wantModel bool) string {
	sy := newSymtab()
	var asserts []*Term
	asserts = append(asserts, o.Hyps...)
	neg := mkNot(witnessExpand(o.Goal, o.Hyps))
	asserts = append(asserts, neg)
	// cone of influence over axioms
	used := map[string]bool{}
	for _, a := range asserts {
		funcNames(a, used)
	}
	var extra []*Term
	axs := p.axiomTerms()
	included := map[string]bool{}
	for changed := true; changed; {
		changed = false
		for _, ax := range axs {
			if included[ax.name] {
				continue
			}
			// include when the axiom shares a spec function with the query
			hit := false
			for f := range ax.funcs {
				if (strings.HasPrefix(f, "spec!") || strings.HasPrefix(f, "global!")) && used[f] {
					hit = true
					break
				}
			}
			if hit {
				included[ax.name] = true
				extra = append(extra, ax.term)
				for f := range ax.funcs {
					if !used[f] {
						used[f] = true
						changed = true
					}
				}
			}
		}
	}
	// interior pointers: ptr!mk is a pairing with projections ptr!arr / ptr!idx; the nil pointer has array id 0
	if used["ptr!mk"] || used["ptr!arr"] || used["ptr!idx"] {
		a, i, pp := mkVar("a!ptr", SInt), mkVar("i!ptr", SInt), mkVar("p!ptr", SInt)
		mk := mkApp("ptr!mk", SInt, a, i)
		extra = append(extra, mkForall([]*Term{a, i}, mkAnd(mkEq(mkApp("ptr!arr", SInt, mk), a), mkEq(mkApp("ptr!idx", SInt, mk), i)), mk))
		extra = append(extra, mkEq(mkApp("ptr!arr", SInt, tZero), tZero))
		extra = append(extra, mkForall([]*Term{pp}, mkEq(mkApp("ptr!mk", SInt, mkApp("ptr!arr", SInt, pp), mkApp("ptr!idx", SInt, pp)), pp), mkApp("ptr!arr", SInt, pp)))
	}
	// every string has a length in [0, 2^62] (address space)
	if used["slen"] {
		sv := mkVar("s!len", SStr)
		extra = append(extra, mkForall([]*Term{sv}, mkAnd(mkLe(tZero, strLen(sv)), mkLe(strLen(sv), mkBig(new(big.Int).Lsh(big.NewInt(1), 62)))), strLen(sv)))
	}
	// string literals
	var lits []string
	for f := range used {
		if strLitRe.MatchString(f) {
			if _, ok := p.strLits[f]; ok {
				lits = append(lits, f)
			}
		}
	}
	sort.Strings(lits)
	for _, name := range lits {
		s := p.strLits[name]
		c := mkApp(name, SStr)
		extra = append(extra, mkEq(strLen(c), mkInt64(int64(len(s)))))
		if len(s) <= 128 {
			for i := 0; i < len(s); i++ {
				extra = append(extra, mkEq(strByte(c, mkInt64(int64(i))), mkInt64(int64(s[i]))))
			}
		}
	}
	// type ids and global references are pairwise distinct, globals non-nil
	strGlobals := map[string]bool{}
	var findStr func(t *Term)
	findStr = func(t *Term) {
		if t.Op == "app" && strings.HasPrefix(t.Name, "global!") && t.Sort != SInt {
			strGlobals[t.Name] = true
		}
		for _, a := range t.Args {
			findStr(a)
		}
	}
	for _, a := range asserts {
		findStr(a)
	}
	for _, a := range extra {
		findStr(a)
	}
	var tids, globs []*Term
	var names []string
	for f := range used {
		names = append(names, f)
	}
	sort.Strings(names)
	for _, f := range names {
		if strings.HasPrefix(f, "type!") {
			tids = append(tids, mkApp(f, SInt))
		}
		if strings.HasPrefix(f, "global!") || strings.HasPrefix(f, "func!") {
			if strGlobals[f] {
				continue
			}
			globs = append(globs, mkApp(f, SInt))
		}
	}
	if len(tids) > 1 {
		extra = append(extra, mkOp("distinct", SBool, tids...))
	}
	for _, t := range tids {
		extra = append(extra, mkGt(t, tZero))
	}
	if len(globs) > 1 {
		gi := []*Term{}
		for _, g := range globs {
			if g.Sort == SInt {
				gi = append(gi, g)
			}
		}
		if len(gi) > 1 {
			extra = append(extra, mkOp("distinct", SBool, gi...))
		}
	}
	for _, g := range globs {
		extra = append(extra, mkGt(g, tZero))
	}
	all := append(extra, asserts...)
	for _, a := range all {
		sy.collect(a, map[string]bool{})
	}
	var b strings.Builder
	b.WriteString("; obligation " + o.Name + "\n")
	if wantModel {
		b.WriteString("(set-option :produce-models true)\n")
	}
	b.WriteString("(set-logic ALL)\n")
	b.WriteString(sy.decls())
	for _, a := range extra {
		b.WriteString("(assert " + a.String() + ")\n")
	}
	for _, a := range o.Hyps {
		b.WriteString("(assert " + a.String() + ")\n")
	}
	b.WriteString("(assert " + neg.String() + ")\n")
	b.WriteString("(check-sat)\n")
	if wantModel {
		b.WriteString("(get-model)\n")
	}
	return b.String()
}

// witnessExpand helps the solvers with existential goals: "exists j :: P(j)" in a positive position is
// replaced by the equivalent "(exists j :: P(j)) || P(c1) || ... || P(cn)" where the ci are the integer
// program variables occurring in the hypotheses (loop counters, indices). Every added disjunct is an
// instance of the existential, so the goal's meaning is unchanged; the solvers no longer have to find
// the witness by quantifier instantiation.
func witnessExpand(goal *Term, hyps []*Term) *Term {
	if !hasExists(goal) {
		return goal
	}
	seen := map[string]bool{}
	var cands []*Term
	var walk func(t *Term)
	walk = func(t *Term) {
		if t.Op == "var" && t.Sort == SInt && !seen[t.Name] {
			seen[t.Name] = true
			if witnessName(t.Name) {
				cands = append(cands, t)
			}
		}
		for _, a := range t.Args {
			walk(a)
		}
	}
	for _, h := range hyps {
		if !hasQuantifier(h) {
			walk(h)
		}
	}
	if len(cands) == 0 || len(cands) > 24 {
		return goal
	}
	var pos func(t *Term) *Term
	pos = func(t *Term) *Term {
		switch t.Op {
		case "exists":
			if len(t.Bound) != 1 || t.Bound[0].Sort != SInt {
				return t
			}
			ds := []*Term{t}
			for _, c := range cands {
				ds = append(ds, t.Args[0].subst(map[string]*Term{t.Bound[0].Name: c}))
			}
			return mkOr(ds...)
		case "and", "or":
			args := make([]*Term, len(t.Args))
			for i, a := range t.Args {
				args[i] = pos(a)
			}
			return &Term{Op: t.Op, Args: args, Sort: t.Sort}
		case "=>":
			if len(t.Args) == 2 {
				return &Term{Op: t.Op, Args: []*Term{t.Args[0], pos(t.Args[1])}, Sort: t.Sort}
			}
		}
		return t
	}
	return pos(goal)
}

var witnessSkip = map[string]bool{"res": true, "alloc": true, "decoded": true, "mv": true, "arr": true, "new": true, "obj": true, "boxed": true, "boxedptr": true, "gv": true, "dummy": true, "x": true, "y": true}

func witnessName(n string) bool {
	i := strings.Index(n, "!")
	if i <= 0 {
		return false
	}
	if witnessSkip[n[:i]] || strings.HasPrefix(n, "G!") {
		return false
	}
	return true
}

func hasExists(t *Term) bool {
	if t.Op == "exists" {
		return true
	}
	for _, a := range t.Args {
		if hasExists(a) {
			return true
		}
	}
	return false
}

func hasQuantifier(t *Term) bool {
	if t.Op == "forall" || t.Op == "exists" {
		return true
	}
	for _, a := range t.Args {
		if hasQuantifier(a) {
			return true
		}
	}
	return false
}

// ---------------------------------------------------------------------------------------------
// Solver race
// ---------------------------------------------------------------------------------------------

type solverCfg struct {
	name string
	args func(file string, timeoutS int) []string
}

var solvers = []solverCfg{
	{"z3-new", func(f string, t int) []string { return []string{"z3-new", fmt.Sprintf("-T:%d", t), f} }},
	{"z3", func(f string, t int) []string { return []string{"z3", fmt.Sprintf("-T:%d", t), f} }},
	{"cvc5", func(f string, t int) []string {
		return []string{"cvc5", fmt.Sprintf("--tlimit=%d", t*1000), "--produce-models", f}
	}},
}

type solveResult struct {
	status  string // unsat sat unknown
	backend string
	out     string
	secs    float64
}

func runSolver(ctx context.Context, sc solverCfg, file string, timeoutS int) solveResult {
	args := sc.args(file, timeoutS)
	t0 := time.Now()
	cctx, cancel := context.WithTimeout(ctx, time.Duration(timeoutS+2)*time.Second)
	defer cancel()
	cmd := exec.CommandContext(cctx, args[0], args[1:]...)
	var out bytes.Buffer
	cmd.Stdout = &out
	cmd.Stderr = &out
	_ = cmd.Run()
	s := out.String()
	first := strings.TrimSpace(strings.SplitN(s, "\n", 2)[0])
	st := "unknown"
	if strings.HasPrefix(first, "(error") {
		st = "error"
	}
	switch first {
	case "unsat":
		st = "unsat"
	case "sat":
		st = "sat"
	}
	return solveResult{status: st, backend: sc.name, out: s, secs: time.Since(t0).Seconds()}
}

// solveOne races the solvers on one obligation. allSolvers: run every solver and compare.
func (p *Program) solveOne(dir string, idx int, o *Obligation, timeoutS int, allSolvers bool) {
	o.Quant = hasQuantifier(o.Goal)
	for _, h := range o.Hyps {
		if hasQuantifier(h) {
			o.Quant = true
			break
		}
	}
	q := p.buildQuery(o, true)
	file := filepath.Join(dir, fmt.Sprintf("q%05d.smt2", idx))
	if err := os.WriteFile(file, []byte(q), 0o644); err != nil {
		o.Status = "unknown"
		o.Output = err.Error()
		return
	}
	o.Query = file
	ctx, cancel := context.WithCancel(context.Background())
	defer cancel()
	results := make(chan solveResult, len(solvers))
	var wg sync.WaitGroup
	launch := func(sc solverCfg) {
		wg.Add(1)
		go func() {
			defer wg.Done()
			results <- runSolver(ctx, sc, file, timeoutS)
		}()
	}
	t0 := time.Now()
	launch(solvers[0])
	launched := 1
	var got []solveResult
	var final *solveResult
	stagger := time.NewTimer(1500 * time.Millisecond)
	if allSolvers {
		stagger.Reset(0)
	}
	defer stagger.Stop()
	for final == nil {
		select {
		case r := <-results:
			got = append(got, r)
			if (r.status == "unsat" || r.status == "sat") && !allSolvers {
				final = &r
			} else if len(got) == len(solvers) {
				final = &got[0]
			} else if launched < len(solvers) && !allSolvers {
				// first solver gave up: start the others now
				for launched < len(solvers) {
					launch(solvers[launched])
					launched++
				}
			}
		case <-stagger.C:
			for launched < len(solvers) {
				launch(solvers[launched])
				launched++
			}
		}
		if allSolvers && len(got) == len(solvers) {
			break
		}
	}
	cancel()
	if allSolvers {
		// agreement check
		var dec *solveResult
		for i := range got {
			r := &got[i]
			if r.status == "unsat" || r.status == "sat" {
				if dec == nil {
					dec = r
				} else if dec.status != r.status {
					o.Status = "disagreement"
					o.Output = fmt.Sprintf("%s says %s, %s says %s", dec.backend, dec.status, r.backend, r.status)
					return
				}
			}
		}
		if dec != nil {
			final = dec
		} else {
			final = &got[0]
		}
	}
	o.TimeS = time.Since(t0).Seconds()
	o.Backend = final.backend
	switch final.status {
	case "unsat":
		o.Status = "discharged"
	case "sat":
		o.Status = "failed"
		o.Output = final.out
		o.Model = parseModel(final.out)
	default:
		o.Status = "unknown"
		for _, r := range got {
			if r.status == "error" && r.backend == "z3-new" {
				o.Status = "solver-error"
			}
		}
		var outs []string
		for _, r := range got {
			outs = append(outs, r.backend+": "+strings.TrimSpace(firstLines(r.out, 3)))
		}
		o.Output = strings.Join(outs, "\n")
		if o.Quant {
			p.solveProjection(dir, idx, o, timeoutS)
		}
	}
	go func() { wg.Wait() }()
}

func firstLines(s string, n int) string {
	ls := strings.Split(s, "\n")
	if len(ls) > n {
		ls = ls[:n]
	}
	return strings.Join(ls, "\n")
}

var defFunRe = regexp.MustCompile(`\(define-fun\s+(\|[^|]*\||[^\s()]+)\s+\(\)\s+(Int|Bool)\s+([^\n]*?)\)\s*$`)

// parseModel extracts scalar constants from a z3/cvc5 model.
func parseModel(out string) map[string]string {
	m := map[string]string{}
	// join lines of each define-fun
	lines := strings.Split(out, "\n")
	var cur string
	flush := func() {
		c := strings.Join(strings.Fields(cur), " ")
		if mm := defFunRe.FindStringSubmatch(c); mm != nil {
			name := strings.Trim(mm[1], "|")
			val := strings.TrimSpace(mm[3])
			val = strings.ReplaceAll(val, "(- ", "-")
			val = strings.TrimSuffix(val, ")")
			m[name] = val
		}
		cur = ""
	}
	for _, l := range lines {
		t := strings.TrimSpace(l)
		if strings.HasPrefix(t, "(define-fun") {
			if cur != "" {
				flush()
			}
			cur = t
		} else if cur != "" {
			cur += " " + t
		}
	}
	if cur != "" {
		flush()
	}
	return m
}

// solveAll discharges obligations in parallel.
func (p *Program) solveAll(dir string, obls []*Obligation, timeoutS int, allSolvers bool, par int) {
	sem := make(chan struct{}, par)
	var wg sync.WaitGroup
	for i, o := range obls {
		wg.Add(1)
		sem <- struct{}{}
		go func(i int, o *Obligation) {
			defer wg.Done()
			defer func() { <-sem }()
			p.solveOne(dir, i, o, timeoutS, allSolvers)
		}(i, o)
	}
	wg.Wait()
}

// solveProjection retries an undecided obligation with its quantified hypotheses removed. A model of
// the projection is only a candidate (it may violate a dropped hypothesis); it is used to drive a
// replay on the real code. An unsat projection discharges the obligation (fewer hypotheses).
func (p *Program) solveProjection(dir string, idx int, o *Obligation, timeoutS int) {
	proj := &Obligation{Name: o.Name, Goal: o.Goal}
	for _, h := range o.Hyps {
		if !hasQuantifier(h) {
			proj.Hyps = append(proj.Hyps, h)
		}
	}
	q := p.buildQuery(proj, true)
	file := filepath.Join(dir, fmt.Sprintf("q%05d-proj.smt2", idx))
	if os.WriteFile(file, []byte(q), 0o644) != nil {
		return
	}
	t := timeoutS
	if t > 10 {
		t = 10
	}
	r := runSolver(context.Background(), solvers[0], file, t)
	switch r.status {
	case "unsat":
		o.Status = "discharged"
		o.Backend = r.backend + " (projection)"
	case "sat":
		o.Projected = true
		o.ProjHyps = proj.Hyps
		o.Model = parseModel(r.out)
		o.Output += "\nprojection without quantified hypotheses: sat (candidate model)"
	}
}
