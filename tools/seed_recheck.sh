#!/bin/bash
# usage: seed_recheck.sh <seed-id>...  - applies each stored seeded change to /repo, runs every claimed check
# (4 in parallel), restores /repo, prints and records which checks report it
cd /verif
PROPS=$(python3 -c "import json;print(' '.join(c['property_id'] for c in json.load(open('/verif/MANIFEST.json'))['checks']))")
for ID in "$@"; do
  cd /repo && git apply /verif/seeded/$ID/patch.diff || { echo "$ID: patch does not apply"; continue; }
  mkdir -p /tmp/seedrun; rm -f /tmp/seedrun/*
  echo $PROPS | tr ' ' '\n' | xargs -P 3 -I{} bash -c "cd /verif && ./bin/govc check --property {} > /tmp/seedrun/{}.out 2>&1"
  DET=""
  for P in $PROPS; do
    if grep -qE "^VIOLATION|^CHECK-BROKEN" /tmp/seedrun/$P.out; then DET="$DET $P"; fi
  done
  cd /repo && git checkout -- .
  echo "$ID DETECTED-BY:$DET"
  for P in $DET; do grep -E "^VIOLATION|^CHECK-BROKEN" /tmp/seedrun/$P.out | head -2 | cut -c1-200 | sed "s/^/    $P: /"; done
  python3 - <<PY
import json
p='/verif/seeded/$ID/meta.json'
m=json.load(open(p)); m['detected_by_checks']="$DET".split(); json.dump(m,open(p,'w'),indent=1)
PY
done
