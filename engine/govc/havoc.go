package govc

import (
	"strings"
	"go/ast"
	"go/token"
	"go/types"
	"os"
)

func (p *Program) source(file string) []byte {
	if p.srcCache == nil {
		p.srcCache = map[string][]byte{}
	}
	if b, ok := p.srcCache[file]; ok {
		return b
	}
	b, _ := os.ReadFile(file)
	p.srcCache[file] = b
	return b
}

// ---------------------------------------------------------------------------------------------
// Loop footprint and havoc
// ---------------------------------------------------------------------------------------------

type footRoot struct {
	node ast.Node
	info *types.Info
}

type footprint struct {
	loopFrom, loopTo token.Pos // source range of the loop (locals declared inside are fresh per iteration)
	inl              [][2]token.Pos // bodies of callees executed in place from the loop: their locals are per iteration too
	allocMark        *Term
	roots    []footRoot
	cells    map[*Cell]bool
	reslice  map[*Cell]bool // true while every assignment seen is a self-reslice
	targets  []modTarget
	visiting map[ast.Node]bool
	depth    int // nesting of contract-less callees scanned in place
}

func (e *Exec) havocLoop(st *State, d loopDesc, spec *LoopSpec) {
	fp := &footprint{cells: map[*Cell]bool{}, reslice: map[*Cell]bool{}, visiting: map[ast.Node]bool{}}
	fp.loopFrom, fp.loopTo = d.node.Pos(), d.node.End()
	fp.allocMark = st.ghostVar(allocGhost, SInt)
	for _, c := range d.extra {
		fp.cells[c] = true
	}
	// pass 1: assigned variables
	for _, n := range d.foot {
		fp.roots = append(fp.roots, footRoot{n, e.info()})
		e.scanAssigned(st, n, fp, e.info())
	}
	// pass 2: heap / memory / ghost writes (roots evaluated at the loop head)
	if spec != nil && len(spec.Modifies) > 0 {
		env := e.loopEnv(st, d.node, d.inner)
		env.what = e.funcName() + " loop modifies"
		fp.targets = e.modTargets(env, spec.Modifies)
	} else {
		for _, n := range d.foot {
			e.scanWrites(st, n, fp, e.curPkg().TypesInfo)
		}
	}
	// havoc memory first (roots refer to pre-havoc variable values)
	e.havocTargets(st, fp.targets)
	for c := range fp.cells {
		old, ok := st.store[c]
		if !ok {
			continue
		}
		switch ov := old.(type) {
		case ClosureVal, IterVal:
			continue
		case SliceVal:
			if fp.reslice[c] {
				nv := SliceVal{Arr: ov.Arr, Off: e.nm.fresh(c.Name+".off", SInt), Len: e.nm.fresh(c.Name+".len", SInt),
					Cap: e.nm.fresh(c.Name+".cap", SInt), Typ: ov.Typ}
				st.assume(mkGe(nv.Off, tZero))
				st.assume(mkGe(nv.Len, tZero))
				st.assume(mkLe(nv.Len, nv.Cap))
				// a reslice never grows beyond the original capacity window
				st.assume(mkEq(mkAdd(nv.Off, nv.Cap), mkAdd(ov.Off, ov.Cap)))
				st.assume(mkGe(nv.Off, ov.Off))
				st.store[c] = nv
				continue
			}
		case PtrVal:
			panic(unsupported("interior pointer variable " + c.Name + " assigned in loop"))
		}
		st.store[c] = e.symbolicValue(st, c.Typ, c.Name)
	}
	// allocations may have happened in earlier iterations
	na := e.nm.fresh("alloc", SInt)
	st.assume(mkGe(na, st.ghostVar(allocGhost, SInt)))
	st.ghost[allocGhost] = na
}

func (e *Exec) objCell(info *types.Info, id *ast.Ident) *Cell {
	obj := info.Uses[id]
	if obj == nil {
		obj = info.Defs[id]
	}
	if obj == nil {
		return nil
	}
	if v, ok := obj.(*types.Var); ok {
		if v.Pkg() != nil && v.Parent() == v.Pkg().Scope() {
			return nil
		}
		return e.cellFor(v)
	}
	return nil
}

func rootIdent(x ast.Expr) *ast.Ident {
	for {
		switch n := ast.Unparen(x).(type) {
		case *ast.Ident:
			return n
		case *ast.SelectorExpr:
			x = n.X
		case *ast.IndexExpr:
			x = n.X
		case *ast.StarExpr:
			x = n.X
		case *ast.SliceExpr:
			x = n.X
		default:
			return nil
		}
	}
}

// scanAssigned collects local variables assigned inside the loop.
func (e *Exec) scanAssigned(st *State, n ast.Node, fp *footprint, info *types.Info) {
	if n == nil || fp.visiting[n] {
		return
	}
	fp.visiting[n] = true
	defer delete(fp.visiting, n)
	mark := func(x ast.Expr, rhs ast.Expr) {
		id, ok := ast.Unparen(x).(*ast.Ident)
		if !ok {
			// assignment through a by-value local struct path: x.f = v
			if sel, isSel := ast.Unparen(x).(*ast.SelectorExpr); isSel {
				if !isPointerType(info.TypeOf(sel.X)) {
					if r := rootIdent(sel.X); r != nil {
						if _, isIdx := ast.Unparen(sel.X).(*ast.IndexExpr); !isIdx {
							if c := e.objCell(info, r); c != nil && reprOf(c.Typ) == rStruct {
								fp.cells[c] = true
							}
						}
					}
				}
			}
			return
		}
		c := e.objCell(info, id)
		if c == nil {
			return
		}
		self := false
		if se, ok := ast.Unparen(rhs).(*ast.SliceExpr); ok {
			if rid, ok := ast.Unparen(se.X).(*ast.Ident); ok && e.objCell(info, rid) == c {
				self = true
			}
		}
		if !fp.cells[c] {
			fp.cells[c] = true
			fp.reslice[c] = self
		} else if !self {
			fp.reslice[c] = false
		}
	}
	ast.Inspect(n, func(x ast.Node) bool {
		switch a := x.(type) {
		case *ast.AssignStmt:
			for i, l := range a.Lhs {
				var r ast.Expr
				if len(a.Rhs) == len(a.Lhs) && a.Tok == token.ASSIGN {
					r = a.Rhs[i]
				}
				if r == nil {
					r = &ast.BadExpr{}
				}
				mark(l, r)
			}
		case *ast.IncDecStmt:
			mark(a.X, &ast.BadExpr{})
		case *ast.RangeStmt:
			if a.Tok == token.ASSIGN {
				if a.Key != nil {
					mark(a.Key, &ast.BadExpr{})
				}
				if a.Value != nil {
					mark(a.Value, &ast.BadExpr{})
				}
			}
		case *ast.UnaryExpr:
			if a.Op == token.AND {
				// &x passed somewhere: x may be written
				if id, ok := ast.Unparen(a.X).(*ast.Ident); ok {
					if c := e.objCell(info, id); c != nil {
						if reprOf(c.Typ) != rOpaque {
							fp.cells[c] = true
							fp.reslice[c] = false
						}
					}
				}
			}
		case *ast.CallExpr:
			// yield(v) of an inlined iterator runs the consumer's range body
			if id, ok := ast.Unparen(a.Fun).(*ast.Ident); ok {
				if yb, owner := e.yieldFor(info.Uses[id]); yb != nil {
					fp.roots = append(fp.roots, footRoot{yb.rng.Body, owner.pkg.TypesInfo})
					e.scanAssigned(st, yb.rng.Body, fp, owner.pkg.TypesInfo)
					{
						for _, kv := range []ast.Expr{yb.rng.Key, yb.rng.Value} {
							if kid, ok := kv.(*ast.Ident); ok {
								if c := e.objCell(owner.pkg.TypesInfo, kid); c != nil {
									fp.cells[c] = true
									fp.reslice[c] = false
								}
							}
						}
					}
				}
			}
			// closures bound to locals are inlined: scan their bodies
			if id, ok := ast.Unparen(a.Fun).(*ast.Ident); ok {
				if v, ok := info.Uses[id].(*types.Var); ok {
					if c, ok := e.cells[v]; ok {
						if clo, ok := st.store[c].(ClosureVal); ok {
							e.scanAssigned(st, clo.Lit.Body, fp, info)
						}
					}
				}
			}
			// method with pointer receiver called on an addressable local: x.m() may write x
			if sel, ok := ast.Unparen(a.Fun).(*ast.SelectorExpr); ok {
				if s := info.Selections[sel]; s != nil && s.Kind() == types.MethodVal {
					if fn, ok := s.Obj().(*types.Func); ok {
						sig := fn.Type().(*types.Signature)
						if sig.Recv() != nil && isPointerType(sig.Recv().Type()) && !isPointerType(info.TypeOf(sel.X)) {
							if id, ok := ast.Unparen(sel.X).(*ast.Ident); ok {
								if c := e.objCell(info, id); c != nil && reprOf(c.Typ) != rOpaque {
									fp.cells[c] = true
									fp.reslice[c] = false
								}
							}
						}
					}
				}
			}
			// range-over-func producers and inline callees
			if fn := e.calleeFuncIn(info, a); fn != nil && inModule(fn.Pkg()) {
				if c := e.prog.contractFor(fn.Origin()); c != nil && c.Inline {
					if d := e.prog.decls[fn.Origin()]; d != nil {
						e.scanAssigned(st, d.Body, fp, e.prog.declPkg[fn.Origin()].TypesInfo)
					}
				}
			}
		}
		return true
	})
}

func (e *Exec) calleeFuncIn(info *types.Info, call *ast.CallExpr) *types.Func {
	fun := ast.Unparen(call.Fun)
	if ix, ok := fun.(*ast.IndexExpr); ok {
		fun = ix.X
	}
	switch f := fun.(type) {
	case *ast.Ident:
		if fn, ok := info.Uses[f].(*types.Func); ok {
			return fn
		}
	case *ast.SelectorExpr:
		if sel := info.Selections[f]; sel != nil {
			if fn, ok := sel.Obj().(*types.Func); ok {
				return fn
			}
			return nil
		}
		if fn, ok := info.Uses[f.Sel].(*types.Func); ok {
			return fn
		}
	}
	return nil
}

// evalAtHead evaluates an expression in a scratch copy of the loop-head state; ok=false when it
// mentions a variable assigned in the loop (other than self-resliced slices) or cannot be evaluated.
func (e *Exec) evalAtHead(st *State, x ast.Expr, fp *footprint, info *types.Info) (v Value, ok bool) {
	bad := false
	ast.Inspect(x, func(n ast.Node) bool {
		if id, isId := n.(*ast.Ident); isId {
			if c := e.objCell(info, id); c != nil && fp.cells[c] && !fp.reslice[c] {
				bad = true
			}
		}
		if _, isCall := n.(*ast.CallExpr); isCall {
			bad = true
		}
		return true
	})
	if bad {
		return nil, false
	}
	tmp := st.clone()
	nObl := len(e.obls)
	seen := map[string]int{}
	for k, v := range e.oblSeen {
		seen[k] = v
	}
	defer func() {
		e.obls = e.obls[:nObl]
		e.oblSeen = seen
		if r := recover(); r != nil {
			if _, isU := r.(unsupportedErr); isU {
				v, ok = nil, false
				return
			}
			// a local declared inside the loop (or inside a callee executed in place) has no value at the head
			if msg, isS := r.(string); isS && strings.HasPrefix(msg, "read of unbound local") {
				v, ok = nil, false
				return
			}
			panic(r)
		}
	}()
	return e.eval(tmp, x), true
}

// scanWrites collects heap/memory/ghost locations written inside the loop.
func (e *Exec) scanWrites(st *State, n ast.Node, fp *footprint, info *types.Info) {
	if n == nil || fp.visiting[n] {
		return
	}
	fp.visiting[n] = true
	defer delete(fp.visiting, n)
	addWrite := func(lhs ast.Expr) {
		e.writeTarget(st, lhs, fp, info)
	}
	ast.Inspect(n, func(x ast.Node) bool {
		switch a := x.(type) {
		case *ast.AssignStmt:
			for _, l := range a.Lhs {
				if _, isId := ast.Unparen(l).(*ast.Ident); !isId {
					addWrite(l)
				}
			}
		case *ast.IncDecStmt:
			if _, isId := ast.Unparen(a.X).(*ast.Ident); !isId {
				addWrite(a.X)
			}
		case *ast.CallExpr:
			e.scanCallWrites(st, a, fp, info)
		}
		return true
	})
}

func (e *Exec) writeTarget(st *State, lhs ast.Expr, fp *footprint, info *types.Info) {
	t := info.TypeOf(lhs)
	var ls []leaf
	func() {
		defer func() {
			if r := recover(); r != nil {
				if _, ok := r.(unsupportedErr); !ok {
					panic(r)
				}
			}
		}()
		leavesOf(t, "", &ls)
	}()
	// peel to find base
	path := ""
	cur := ast.Unparen(lhs)
	for {
		switch n := cur.(type) {
		case *ast.SelectorExpr:
			sel := info.Selections[n]
			if sel == nil || sel.Kind() != types.FieldVal {
				return
			}
			xt := info.TypeOf(n.X)
			// full embedded path
			p := ""
			tt := sel.Recv()
			if pt, ok := tt.Underlying().(*types.Pointer); ok {
				tt = pt.Elem()
			}
			for _, ix := range sel.Index() {
				if pt, ok := tt.Underlying().(*types.Pointer); ok {
					tt = pt.Elem()
				}
				f := tt.Underlying().(*types.Struct).Field(ix)
				p += "." + f.Name()
				tt = f.Type()
			}
			path = p + path
			if pt, ok := xt.Underlying().(*types.Pointer); ok {
				// heap write at ref = n.X
				tg := modTarget{kind: "heap"}
				for _, l := range ls {
					tg.keys = append(tg.keys, leafKey{heapFamily(pt.Elem()) + path + l.Path, l.Sort})
				}
				if v, ok := e.evalAtHead(st, n.X, fp, info); ok {
					switch pv := v.(type) {
					case Scalar:
						tg.root = pv.T
					case PtrVal:
						// interior pointer: resolve through its location
						e.addLocTarget(fp, pv.Loc, path, ls)
						return
					}
				}
				fp.targets = append(fp.targets, tg)
				return
			}
			cur = ast.Unparen(n.X)
		case *ast.IndexExpr:
			bt := info.TypeOf(n.X)
			var et types.Type
			switch u := bt.Underlying().(type) {
			case *types.Slice:
				et = u.Elem()
			case *types.Array:
				et = u.Elem()
			case *types.Pointer:
				if a, ok := u.Elem().Underlying().(*types.Array); ok {
					et = a.Elem()
				}
			}
			if et == nil {
				return
			}
			tg := modTarget{kind: "mem"}
			for _, l := range ls {
				tg.keys = append(tg.keys, leafKey{memFamily(et) + path + l.Path, l.Sort})
			}
			if v, ok := e.evalAtHead(st, n.X, fp, info); ok {
				if sv, ok := toSlice(v); ok {
					tg.root = sv.Arr
				} else if pv, ok := v.(PtrVal); ok {
					if av, ok := e.loadLocQuiet(st, pv.Loc).(ArrayVal); ok {
						tg.root = av.Arr
					}
				}
			}
			if tg.root == nil && e.loopLocalValue(n.X, fp, info) {
				tg.freshOnly, tg.allocMark = true, fp.allocMark
			}
			fp.targets = append(fp.targets, tg)
			return
		case *ast.StarExpr:
			xt := info.TypeOf(n.X)
			pt, ok := xt.Underlying().(*types.Pointer)
			if !ok {
				return
			}
			if v, ok := e.evalAtHead(st, n.X, fp, info); ok {
				if pv, ok := v.(PtrVal); ok {
					e.addLocTarget(fp, pv.Loc, path, ls)
					return
				}
				tg := modTarget{kind: "heap", root: asTerm(v)}
				for _, l := range ls {
					tg.keys = append(tg.keys, leafKey{heapFamily(pt.Elem()) + path + l.Path, l.Sort})
				}
				fp.targets = append(fp.targets, tg)
				return
			}
			tg := modTarget{kind: "heap"}
			for _, l := range ls {
				tg.keys = append(tg.keys, leafKey{heapFamily(pt.Elem()) + path + l.Path, l.Sort})
			}
			fp.targets = append(fp.targets, tg)
			return
		case *ast.Ident:
			// local struct variable path: handled by scanAssigned
			return
		default:
			return
		}
	}
}

func (e *Exec) loadLocQuiet(st *State, l Loc) Value {
	st.quiet++
	defer func() { st.quiet-- }()
	return e.loadLoc(st, l)
}

func (e *Exec) addLocTarget(fp *footprint, l Loc, path string, ls []leaf) {
	switch x := l.(type) {
	case *HeapLoc:
		tg := modTarget{kind: "heap", root: x.Ref}
		for _, lf := range ls {
			tg.keys = append(tg.keys, leafKey{x.Fam + x.Path + path + lf.Path, lf.Sort})
		}
		fp.targets = append(fp.targets, tg)
	case *MemLoc:
		tg := modTarget{kind: "mem", root: x.Arr}
		for _, lf := range ls {
			tg.keys = append(tg.keys, leafKey{x.Fam + x.Path + path + lf.Path, lf.Sort})
		}
		fp.targets = append(fp.targets, tg)
	case *LocalLoc:
		fp.cells[x.Cell] = true
		fp.reslice[x.Cell] = false
	}
}

// scanCallWrites adds the modifies footprint of a call inside a loop.
func (e *Exec) scanCallWrites(st *State, call *ast.CallExpr, fp *footprint, info *types.Info) {
	// builtin copy
	if id, ok := ast.Unparen(call.Fun).(*ast.Ident); ok {
		if b, ok := info.Uses[id].(*types.Builtin); ok {
			if b.Name() == "copy" || b.Name() == "clear" {
				bt := info.TypeOf(call.Args[0])
				if sl, ok := bt.Underlying().(*types.Slice); ok {
					var ls []leaf
					leavesOf(sl.Elem(), "", &ls)
					tg := modTarget{kind: "mem"}
					for _, l := range ls {
						tg.keys = append(tg.keys, leafKey{memFamily(sl.Elem()) + l.Path, l.Sort})
					}
					if v, ok := e.evalAtHead(st, call.Args[0], fp, info); ok {
						if sv, ok := toSlice(v); ok {
							tg.root = sv.Arr
						}
					}
					if tg.root == nil {
						if arr, ok := e.resolveArrayRoot(st, call.Args[0], fp, info, 0); ok {
							tg.root = arr
						} else if e.loopLocalValue(call.Args[0], fp, info) {
							tg.freshOnly, tg.allocMark = true, fp.allocMark
						}
					}
					fp.targets = append(fp.targets, tg)
				}
			}
			return
		}
		if yb, owner := e.yieldFor(info.Uses[id]); yb != nil {
			e.scanWrites(st, yb.rng.Body, fp, owner.pkg.TypesInfo)
			return
		}
		// closure bound to a local
		if v, ok := info.Uses[id].(*types.Var); ok {
			if c, ok := e.cells[v]; ok {
				if clo, ok := st.store[c].(ClosureVal); ok {
					e.scanWrites(st, clo.Lit.Body, fp, info)
					return
				}
			}
		}
	}
	fn := e.calleeFuncIn(info, call)
	if fn == nil {
		return
	}
	origin := fn.Origin()
	c := e.prog.contractFor(origin)
	if c == nil {
		// no contract: executed in place (see inlineTarget); its writes belong to the loop's footprint
		if inModule(origin.Pkg()) && fp.depth < 6 {
			if d := e.prog.decls[origin]; d != nil && d.Body != nil {
				// bind the callee's parameters to what the arguments denote at the loop head, so that
				// writes through them resolve to the caller's arrays / objects
				sig := fn.Type().(*types.Signature)
				type savedCell struct {
					c   *Cell
					v   Value
					had bool
				}
				var saved []savedCell
				for i := 0; i < sig.Params().Len() && i < len(call.Args); i++ {
					if sig.Variadic() && i == sig.Params().Len()-1 {
						break
					}
					pc := e.cellFor(sig.Params().At(i))
					var av Value
					if v, ok := e.evalAtHead(st, call.Args[i], fp, info); ok {
						av = v
					} else if arr, ok := e.resolveArrayRoot(st, call.Args[i], fp, info, 0); ok && reprOf(sig.Params().At(i).Type()) == rSlice {
						dv := e.symbolicValue(st.clone(), sig.Params().At(i).Type(), "dummy").(SliceVal)
						dv.Arr = arr
						av = dv
					}
					if av != nil {
						old, had := st.store[pc]
						saved = append(saved, savedCell{pc, old, had})
						st.store[pc] = av
					}
				}
				fp.depth++
				fp.inl = append(fp.inl, [2]token.Pos{d.Body.Pos(), d.Body.End()})
				e.scanWrites(st, d.Body, fp, e.prog.declPkg[origin].TypesInfo)
				fp.inl = fp.inl[:len(fp.inl)-1]
				fp.depth--
				for _, sc := range saved {
					if sc.had {
						st.store[sc.c] = sc.v
					} else {
						delete(st.store, sc.c)
					}
				}
			}
		}
		return
	}
	if c.Inline {
		if d := e.prog.decls[origin]; d != nil {
			fp.inl = append(fp.inl, [2]token.Pos{d.Body.Pos(), d.Body.End()})
			e.scanWrites(st, d.Body, fp, e.prog.declPkg[origin].TypesInfo)
			fp.inl = fp.inl[:len(fp.inl)-1]
		}
		return
	}
	if len(c.Modifies) == 0 && len(c.Ghosts) == 0 {
		return
	}
	// evaluate operands at the loop head where possible, else symbolic dummies
	sig := fn.Type().(*types.Signature)
	tmp := st.clone()
	dummies := map[string]bool{}
	env := &SpecEnv{e: e, st: tmp, old: tmp, vars: map[string]Value{}, what: "loop footprint of call to " + libKey(origin)}
	if c.Pkg != "" {
		if pk := e.prog.pkgs[c.Pkg]; pk != nil {
			env.pkg = pk.Types
		}
	}
	dummy := func(t types.Type, name string) Value {
		n0 := e.nm.n
		v := e.symbolicValue(tmp, t, "dummy")
		for i := n0 + 1; i <= e.nm.n; i++ {
			dummies[itoa(i)] = true
		}
		_ = name
		return v
	}
	if r := sig.Recv(); r != nil {
		n := r.Name()
		if c.Recv != "" {
			n = c.Recv
		}
		if n == "" || n == "_" {
			n = "recv"
		}
		var rv Value
		if sel, ok := ast.Unparen(call.Fun).(*ast.SelectorExpr); ok {
			if v, ok := e.evalRecvAtHead(st, sel, sig, fp, info); ok {
				rv = v
			}
		}
		if rv == nil {
			if sel, ok := ast.Unparen(call.Fun).(*ast.SelectorExpr); ok {
				if ptr, isPtr := r.Type().Underlying().(*types.Pointer); isPtr {
					if arr, ok := e.resolveArrayRoot(st, sel.X, fp, info, 0); ok {
						dv := dummy(types.Typ[types.Int], n).(Scalar)
						rv = PtrVal{Loc: &MemLoc{Fam: memFamily(ptr.Elem()), Arr: arr, Idx: dv.T, Typ: ptr.Elem()}, Typ: r.Type()}
					}
				}
			}
		}
		if rv == nil {
			rv = dummy(r.Type(), n)
		}
		env.vars[n] = rv
		env.vars["recv"] = rv
	}
	for i := 0; i < sig.Params().Len(); i++ {
		n := sig.Params().At(i).Name()
		if i < len(c.Params) {
			n = c.Params[i]
		}
		if n == "" || n == "_" {
			n = "p" + itoa(i)
		}
		var av Value
		if i < len(call.Args) && !(sig.Variadic() && i == sig.Params().Len()-1) {
			if v, ok := e.evalAtHead(st, call.Args[i], fp, info); ok {
				av = v
			} else if arr, ok := e.resolveArrayRoot(st, call.Args[i], fp, info, 0); ok {
				// only the backing array is known at the loop head
				pt := sig.Params().At(i).Type()
				switch reprOf(pt) {
				case rSlice:
					dv := dummy(pt, n).(SliceVal)
					dv.Arr = arr
					av = dv
				case rRef:
					if ptr, isPtr := pt.Underlying().(*types.Pointer); isPtr {
						dv := dummy(types.Typ[types.Int], n).(Scalar)
						av = PtrVal{Loc: &MemLoc{Fam: memFamily(ptr.Elem()), Arr: arr, Idx: dv.T, Typ: ptr.Elem()}, Typ: pt}
					}
				}
			}
		}
		if av == nil {
			av = dummy(sig.Params().At(i).Type(), n)
		}
		env.vars[n] = av
	}
	env.oldVar = env.vars
	func() {
		defer func() {
			if r := recover(); r != nil {
				if _, ok := r.(ContractError); ok {
					// lets that cannot be evaluated with dummies: fall back to whole-family havoc below
					return
				}
				panic(r)
			}
		}()
		for _, l := range c.Lets {
			env.vars[l.Name] = env.eval(l.Expr)
		}
	}()
	ts := e.modTargets(env, c.Modifies)
	for _, u := range c.Ghosts {
		if g, ok := e.prog.specs.Ghosts[u.Name]; ok {
			ts = append(ts, modTarget{kind: "ghost", name: u.Name, keys: []leafKey{{u.Name, specSort(g.Type)}}})
		}
	}
	var extra []modTarget
	for i := range ts {
		if ts[i].root != nil && mentionsDummy(ts[i].root, dummies) {
			ts[i].root = nil
			ts[i].elem = nil
			// a pointer operand that could not be resolved may point into the heap or into a slice
			switch ts[i].kind {
			case "heap":
				extra = append(extra, modTarget{kind: "mem", keys: ts[i].keys})
			case "mem":
				// (objects of interior types never live in the heap)
				interior := false
				for _, k := range ts[i].keys {
					for tn := range interiorTypes {
						if strings.HasPrefix(k.key, tn+".") || k.key == tn {
							interior = true
						}
					}
				}
				if !interior {
					extra = append(extra, modTarget{kind: "heap", keys: ts[i].keys})
				}
			}
		}
		if ts[i].elem != nil && mentionsDummy(ts[i].elem, dummies) {
			ts[i].elem = nil
		}
	}
	fp.targets = append(fp.targets, ts...)
	fp.targets = append(fp.targets, extra...)
}

func (e *Exec) evalRecvAtHead(st *State, sel *ast.SelectorExpr, sig *types.Signature, fp *footprint, info *types.Info) (v Value, ok bool) {
	bad := false
	ast.Inspect(sel.X, func(n ast.Node) bool {
		if id, isId := n.(*ast.Ident); isId {
			if c := e.objCell(info, id); c != nil && fp.cells[c] && !fp.reslice[c] {
				bad = true
			}
		}
		if _, isCall := n.(*ast.CallExpr); isCall {
			bad = true
		}
		return true
	})
	if bad {
		return nil, false
	}
	tmp := st.clone()
	nObl := len(e.obls)
	seen := map[string]int{}
	for k, v := range e.oblSeen {
		seen[k] = v
	}
	defer func() {
		e.obls = e.obls[:nObl]
		e.oblSeen = seen
		if r := recover(); r != nil {
			if _, isU := r.(unsupportedErr); isU {
				v, ok = nil, false
				return
			}
			panic(r)
		}
	}()
	return e.evalReceiver(tmp, sel, sig), true
}

func itoa(i int) string {
	if i == 0 {
		return "0"
	}
	neg := i < 0
	if neg {
		i = -i
	}
	var b []byte
	for i > 0 {
		b = append([]byte{byte('0' + i%10)}, b...)
		i /= 10
	}
	if neg {
		b = append([]byte{'-'}, b...)
	}
	return string(b)
}

func mentionsDummy(t *Term, dummies map[string]bool) bool {
	if t.Op == "var" {
		for i := len(t.Name) - 1; i >= 0; i-- {
			if t.Name[i] == '!' {
				return dummies[t.Name[i+1:]]
			}
		}
		return false
	}
	for _, a := range t.Args {
		if mentionsDummy(a, dummies) {
			return true
		}
	}
	return false
}

// yieldFor finds the yield binding (and the frame owning the range statement) for a yield parameter.
func (e *Exec) yieldFor(obj types.Object) (*yieldBinding, *frame) {
	if obj == nil {
		return nil, nil
	}
	for i := len(e.frames) - 1; i >= 0; i-- {
		if yb := e.frames[i].yield; yb != nil && yb.obj == obj {
			return yb, e.frames[yb.frameIx]
		}
	}
	return nil, nil
}

// resolveArrayRoot finds the backing array (at the loop head) that a slice or element-pointer
// expression refers to, following reslices, &X[i], single definitions `p := &X[i]` inside the loop
// and yield-bound range variables.
func (e *Exec) resolveArrayRoot(st *State, x ast.Expr, fp *footprint, info *types.Info, depth int) (*Term, bool) {
	if depth > 6 {
		return nil, false
	}
	switch n := ast.Unparen(x).(type) {
	case *ast.SliceExpr:
		return e.resolveArrayRoot(st, n.X, fp, info, depth+1)
	case *ast.UnaryExpr:
		if n.Op == token.AND {
			if ix, ok := ast.Unparen(n.X).(*ast.IndexExpr); ok {
				return e.resolveArrayRoot(st, ix.X, fp, info, depth+1)
			}
		}
		return nil, false
	case *ast.IndexExpr:
		// an element of a slice lives in that slice's backing array
		if _, isSlice := info.TypeOf(n.X).Underlying().(*types.Slice); isSlice {
			if _, elemIsSlice := info.TypeOf(n).Underlying().(*types.Slice); !elemIsSlice {
				return e.resolveArrayRoot(st, n.X, fp, info, depth+1)
			}
		}
		if v, ok := e.evalAtHead(st, x, fp, info); ok {
			if sv, ok := toSlice(v); ok {
				return sv.Arr, true
			}
		}
		return nil, false
	case *ast.SelectorExpr:
		if v, ok := e.evalAtHead(st, x, fp, info); ok {
			if sv, ok := toSlice(v); ok {
				return sv.Arr, true
			}
		}
		return nil, false
	case *ast.Ident:
		c := e.objCell(info, n)
		if c == nil {
			return nil, false
		}
		if !fp.cells[c] || fp.reslice[c] {
			if v, ok := st.store[c]; ok {
				switch pv := v.(type) {
				case SliceVal:
					return pv.Arr, true
				case ArrayVal:
					return pv.Arr, true
				case PtrVal:
					if ml, ok := pv.Loc.(*MemLoc); ok {
						return ml.Arr, true
					}
				}
			}
			return nil, false
		}
		obj := info.Uses[n]
		if obj == nil {
			obj = info.Defs[n]
		}
		// single definition inside the loop, or a yield-bound range variable
		var found ast.Expr
		var foundInfo *types.Info
		count := 0
		for _, r := range fp.roots {
			ast.Inspect(r.node, func(m ast.Node) bool {
				if as, ok := m.(*ast.AssignStmt); ok {
					for i, l := range as.Lhs {
						if id, ok := l.(*ast.Ident); ok && (r.info.Defs[id] == obj || r.info.Uses[id] == obj) {
							count++
							if len(as.Rhs) == len(as.Lhs) {
								found, foundInfo = as.Rhs[i], r.info
							}
						}
					}
				}
				return true
			})
		}
		// yield-bound range variable
		for i := len(e.frames) - 1; i >= 0; i-- {
			yb := e.frames[i].yield
			if yb == nil {
				continue
			}
			owner := e.frames[yb.frameIx]
			for k, kv := range []ast.Expr{yb.rng.Key, yb.rng.Value} {
				if id, ok := kv.(*ast.Ident); ok && (owner.pkg.TypesInfo.Defs[id] == obj || owner.pkg.TypesInfo.Uses[id] == obj) {
					// find yield(...) calls in the scanned producer body
					for _, r := range fp.roots {
						ast.Inspect(r.node, func(m ast.Node) bool {
							if call, ok := m.(*ast.CallExpr); ok {
								if fid, ok := ast.Unparen(call.Fun).(*ast.Ident); ok && r.info.Uses[fid] == yb.obj && k < len(call.Args) {
									count++
									found, foundInfo = call.Args[k], r.info
								}
							}
							return true
						})
					}
				}
			}
		}
		if count == 1 && found != nil {
			return e.resolveArrayRoot(st, found, fp, foundInfo, depth+1)
		}
	}
	return nil, false
}

// loopLocalValue: the expression denotes (part of) a by-value local declared inside the loop, i.e.
// memory that is freshly allocated in every iteration (arrays inside struct or array locals).
func (e *Exec) loopLocalValue(x ast.Expr, fp *footprint, info *types.Info) bool {
	for {
		switch n := ast.Unparen(x).(type) {
		case *ast.SliceExpr:
			x = n.X
		case *ast.IndexExpr:
			if _, isArr := info.TypeOf(n.X).Underlying().(*types.Array); !isArr {
				return false
			}
			x = n.X
		case *ast.SelectorExpr:
			if isPointerType(info.TypeOf(n.X)) {
				return false
			}
			x = n.X
		case *ast.Ident:
			obj := info.Uses[n]
			if obj == nil {
				obj = info.Defs[n]
			}
			v, ok := obj.(*types.Var)
			if !ok {
				return false
			}
			switch reprOf(v.Type()) {
			case rStruct, rArray:
			default:
				return false
			}
			if v.Pos() > fp.loopFrom && v.Pos() < fp.loopTo {
				return true
			}
			for _, r := range fp.inl {
				if v.Pos() > r[0] && v.Pos() < r[1] {
					return true
				}
			}
			return false
		default:
			return false
		}
	}
}
