#!/bin/bash
# Thorough-tier supplement: runs the conformance tests of the trusted / assumed contracts against the
# real functions (injected into the repository packages with -overlay; nothing is written to /repo).
# usage: conformance.sh   -> exit 0 when every assumed contract tested holds on the sampled inputs
set -u
export GOFLAGS=-mod=mod GOPROXY=off GOSUMDB=off GOTOOLCHAIN=local
V=$(cd "$(dirname "$0")/.." && pwd)
T=$(mktemp -d)
trap 'rm -rf "$T"' EXIT
cat > $T/ov.json <<J
{"Replace": {"/repo/pkg/fs/zz_conformance_test.go": "$V/conformance/fs_conformance_test.go",
             "/repo/pkg/iprange/zz_conformance_test.go": "$V/conformance/lib_conformance_test.go",
             "/repo/pkg/iprange/zz_conformance2_test.go": "$V/conformance/lib2_conformance_test.go"}}
J
cd /repo && go test -overlay $T/ov.json -vet=off -count=1 -timeout 300s -run 'TestConformance' ./pkg/fs ./pkg/iprange
