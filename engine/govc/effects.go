package govc

import (
	"fmt"
	"go/ast"
	"go/token"
	"go/types"
	"sort"
	"strings"
)

// Effect / frame checker (G6 of DESIGN.md): syntactic obligations over the typed AST for the two
// properties whose mechanism is "no shared mutable state" (C12) and "no hidden nondeterminism on the
// layout path" (C18). Each obligation is a named, purely syntactic check; it is discharged when the
// pattern it forbids does not occur (or occurs only in the allow-listed form).

type effectCfg struct {
	Packages     []string            `json:"packages"`     // package names to scan
	SharedTypes  []string            `json:"shared_types"` // "pkg.Type": objects shared by all connections, fields immutable after construction
	SafeGlobals  []string            `json:"safe_globals"` // "pkg.name": package-level variables that may be used (immutable values / goroutine-safe objects)
	SafeLibTypes []string            `json:"safe_lib_types"`
	GoAllowed    []string            `json:"go_allowed"`   // functions that may start goroutines
	Functions    []string            `json:"functions"`    // C18: "pkg.Key" of the layout path
	NondetSinks  map[string][]string `json:"nondet_sinks"` // C18: "func:source" -> allowed statement forms (substring of the normalised statement)
	TaintLocals  map[string][]string `json:"taint_locals"` // C18: "func:local" -> struct fields the local may initialise
	TaintFields  map[string][]string `json:"taint_fields"` // C18: "pkg.Type.field" -> functions that may use the field
}

type effectObl struct {
	Name   string
	OK     bool
	Detail string
	Pos    string
}

func (p *Program) modulePkgByName(name string) []*types.Package {
	var out []*types.Package
	for path, pk := range p.pkgs {
		if strings.HasPrefix(path, modulePrefix) && pk.Types.Name() == name {
			out = append(out, pk.Types)
		}
	}
	return out
}

func (p *Program) checkEffectsC12(cfg *effectCfg) []effectObl {
	var obls []effectObl
	safeGlobal := map[string]bool{}
	for _, g := range cfg.SafeGlobals {
		safeGlobal[g] = true
	}
	shared := map[string]bool{}
	for _, t := range cfg.SharedTypes {
		shared[t] = true
	}
	scan := map[string]bool{}
	for _, n := range cfg.Packages {
		scan[n] = true
	}
	var paths []string
	for path := range p.pkgs {
		paths = append(paths, path)
	}
	sort.Strings(paths)
	for _, path := range paths {
		pk := p.pkgs[path]
		if !strings.HasPrefix(path, modulePrefix) || !scan[pk.Types.Name()] {
			continue
		}
		info := pk.TypesInfo
		for _, f := range pk.Syntax {
			if strings.HasSuffix(p.fset.Position(f.Pos()).Filename, "_test.go") {
				continue
			}
			for _, d := range f.Decls {
				fd, ok := d.(*ast.FuncDecl)
				if !ok || fd.Body == nil {
					continue
				}
				fobj, _ := info.Defs[fd.Name].(*types.Func)
				if fobj == nil {
					continue
				}
				fname := pk.Types.Name() + "." + funcKey(fobj)
				isInit := fd.Name.Name == "init"
				// 1. writes to package-level variables; 3. writes to fields of shared objects
				writes, sharedWrites := 0, 0
				var detail, sdetail []string
				checkLHS := func(l ast.Expr) {
					root := rootIdent(l)
					if root != nil {
						if v, ok := info.Uses[root].(*types.Var); ok && v.Pkg() != nil && v.Parent() == v.Pkg().Scope() {
							writes++
							detail = append(detail, p.fset.Position(l.Pos()).String()+": "+v.Name())
						}
					}
					if sel, ok := ast.Unparen(l).(*ast.SelectorExpr); ok {
						if s := info.Selections[sel]; s != nil && s.Kind() == types.FieldVal {
							rt := s.Recv()
							if pt, ok := rt.Underlying().(*types.Pointer); ok {
								rt = pt.Elem()
							}
							if named, ok := types.Unalias(rt).(*types.Named); ok && named.Obj().Pkg() != nil {
								k := named.Obj().Pkg().Name() + "." + named.Obj().Name()
								if shared[k] {
									sharedWrites++
									sdetail = append(sdetail, p.fset.Position(l.Pos()).String()+": "+k+"."+sel.Sel.Name)
								}
							}
						}
					}
				}
				globalsUsed := map[string]token.Pos{}
				globalTypes := map[string]types.Type{}
				goStmts, selects := 0, 0
				ast.Inspect(fd.Body, func(n ast.Node) bool {
					switch a := n.(type) {
					case *ast.AssignStmt:
						if a.Tok != token.DEFINE {
							for _, l := range a.Lhs {
								checkLHS(l)
							}
						}
					case *ast.IncDecStmt:
						checkLHS(a.X)
					case *ast.UnaryExpr:
						if a.Op == token.AND {
							if id := rootIdent(a.X); id != nil {
								if v, ok := info.Uses[id].(*types.Var); ok && v.Pkg() != nil && v.Parent() == v.Pkg().Scope() && !safeGlobal[v.Pkg().Name()+"."+v.Name()] {
									writes++
									detail = append(detail, p.fset.Position(a.Pos()).String()+": address of "+v.Name()+" taken")
								}
							}
						}
					case *ast.GoStmt:
						goStmts++
					case *ast.SelectStmt:
						selects++
					case *ast.CallExpr:
						// copy(global, ..) / append(global, ..) / clear(global) write through the global
						if id, ok := a.Fun.(*ast.Ident); ok && len(a.Args) > 0 {
							if _, isB := info.Uses[id].(*types.Builtin); isB && (id.Name == "copy" || id.Name == "clear") {
								if r := rootIdent(a.Args[0]); r != nil {
									if v, ok := info.Uses[r].(*types.Var); ok && v.Pkg() != nil && v.Parent() == v.Pkg().Scope() {
										writes++
										detail = append(detail, p.fset.Position(a.Pos()).String()+": "+id.Name+" into "+v.Name())
									}
								}
							}
						}
					case *ast.Ident:
						if v, ok := info.Uses[a].(*types.Var); ok && v.Pkg() != nil && v.Parent() == v.Pkg().Scope() && !v.IsField() {
							globalsUsed[v.Pkg().Name()+"."+v.Name()] = a.Pos()
							globalTypes[v.Pkg().Name()+"."+v.Name()] = v.Type()
						}
					}
					return true
				})
				if isInit {
					continue
				}
				obls = append(obls, effectObl{Name: fname + "#effect:no-write-to-package-level-state", OK: writes == 0,
					Detail: strings.Join(detail, "; "), Pos: p.fset.Position(fd.Pos()).String()})
				obls = append(obls, effectObl{Name: fname + "#effect:no-write-to-shared-object-fields", OK: sharedWrites == 0 || isConstructor(fd),
					Detail: strings.Join(sdetail, "; "), Pos: p.fset.Position(fd.Pos()).String()})
				goOK := goStmts == 0
				for _, g := range cfg.GoAllowed {
					if g == fname {
						goOK = true
					}
				}
				_ = selects
				obls = append(obls, effectObl{Name: fname + "#effect:no-goroutine-started", OK: goOK,
					Detail: "a go statement outside the accept loop shares the connection's state between goroutines", Pos: p.fset.Position(fd.Pos()).String()})
				var gnames []string
				for g := range globalsUsed {
					gnames = append(gnames, g)
				}
				sort.Strings(gnames)
				for _, g := range gnames {
					if safeGlobal[g] || immutableValueType(globalTypes[g]) {
						continue
					}
					// module-level constants-like values: arrays / strings / errors that are never written are
					// still listed explicitly in safe_globals; anything else is a shared mutable object
					obls = append(obls, effectObl{Name: fname + "#effect:shared-object:" + g, OK: false,
						Detail: "package-level variable " + g + " is used on the connection path and is not in the list of immutable values / goroutine-safe objects",
						Pos:    p.fset.Position(globalsUsed[g]).String()})
				}
			}
		}
	}
	return obls
}

// immutableValueType: values that carry no mutable state of their own (given that the module never
// writes them, which the no-write obligations establish): sentinel errors, basic values, strings,
// arrays and slices of basic values, stateless (field-less) structs.
func immutableValueType(t types.Type) bool {
	if t == nil {
		return false
	}
	if types.Identical(t, types.Universe.Lookup("error").Type()) {
		return true
	}
	switch u := t.Underlying().(type) {
	case *types.Basic:
		return true
	case *types.Array:
		return immutableValueType(u.Elem())
	case *types.Slice:
		_, basic := u.Elem().Underlying().(*types.Basic)
		return basic
	case *types.Struct:
		for i := 0; i < u.NumFields(); i++ {
			if !immutableValueType(u.Field(i).Type()) {
				return false
			}
		}
		return true
	}
	return false
}

func isConstructor(fd *ast.FuncDecl) bool {
	return fd.Recv == nil && strings.HasPrefix(fd.Name.Name, "New")
}

// checkEffectsC18: determinism of the layout path. For every function of the listed packages:
// no iteration over a map, no goroutine/select, and every nondeterministic source (time.Now,
// crypto/rand, math/rand, os.Getpid ...) occurs only in an allow-listed statement. Values derived from
// a source are followed one step: a local bound to a source may be used only as the value of the
// allow-listed struct fields; those fields may be read only in the allow-listed functions.
func (p *Program) checkEffectsC18(cfg *effectCfg) []effectObl {
	var obls []effectObl
	isSource := func(obj types.Object) string {
		if obj == nil || obj.Pkg() == nil {
			return ""
		}
		switch obj.Pkg().Path() {
		case "time":
			switch obj.Name() {
			case "Now", "Since", "Until":
				return "time." + obj.Name()
			}
		case "crypto/rand", "math/rand", "math/rand/v2":
			return "rand." + obj.Name()
		case "os":
			switch obj.Name() {
			case "Getpid", "Getppid", "Hostname", "Getenv", "Environ", "Getwd":
				return "os." + obj.Name()
			}
		}
		return ""
	}
	var paths []string
	for path := range p.pkgs {
		paths = append(paths, path)
	}
	sort.Strings(paths)
	inPkgs := map[string]bool{}
	for _, n := range cfg.Packages {
		inPkgs[n] = true
	}
	fieldReaders := map[string]map[string]bool{} // "pkg.Type.field" -> functions reading it
	for _, path := range paths {
		pk := p.pkgs[path]
		if !strings.HasPrefix(path, modulePrefix) || !inPkgs[pk.Types.Name()] {
			continue
		}
		info := pk.TypesInfo
		for _, f := range pk.Syntax {
			if strings.HasSuffix(p.fset.Position(f.Pos()).Filename, "_test.go") {
				continue
			}
			for _, d := range f.Decls {
				fd, ok := d.(*ast.FuncDecl)
				if !ok || fd.Body == nil {
					continue
				}
				fobj, _ := info.Defs[fd.Name].(*types.Func)
				if fobj == nil {
					continue
				}
				fname := pk.Types.Name() + "." + funcKey(fobj)
				src := p.source(p.fset.Position(fd.Pos()).Filename)
				text := func(n ast.Node) string {
					a, b := p.fset.Position(n.Pos()).Offset, p.fset.Position(n.End()).Offset
					if src == nil || b > len(src) {
						return ""
					}
					return strings.Join(strings.Fields(string(src[a:b])), " ")
				}
				// innermost simple statement containing pos
				var simple []ast.Stmt
				ast.Inspect(fd.Body, func(n ast.Node) bool {
					switch s := n.(type) {
					case *ast.AssignStmt, *ast.ExprStmt, *ast.ReturnStmt, *ast.DeclStmt, *ast.IncDecStmt, *ast.GoStmt, *ast.DeferStmt, *ast.SendStmt:
						simple = append(simple, s.(ast.Stmt))
					}
					return true
				})
				enclosing := func(pos token.Pos) ast.Stmt {
					var best ast.Stmt
					for _, s := range simple {
						if s.Pos() <= pos && pos < s.End() && (best == nil || s.End()-s.Pos() < best.End()-best.Pos()) {
							best = s
						}
					}
					return best
				}
				mapRanges, gos := 0, 0
				nsrc := 0
				tainted := map[types.Object]string{}
				ast.Inspect(fd.Body, func(n ast.Node) bool {
					switch a := n.(type) {
					case *ast.RangeStmt:
						if _, isMap := info.TypeOf(a.X).Underlying().(*types.Map); isMap {
							mapRanges++
						}
					case *ast.GoStmt, *ast.SelectStmt:
						gos++
					case *ast.SelectorExpr:
						if txt := isSource(info.Uses[a.Sel]); txt != "" {
							nsrc++
							st := enclosing(a.Pos())
							stmt := ""
							if st != nil {
								stmt = text(st)
							}
							good := false
							for _, want := range cfg.NondetSinks[fname+":"+txt] {
								if strings.Contains(stmt, want) {
									good = true
								}
							}
							// a source that directly initialises a struct field: the field is the sink
							inKV := false
							if st != nil {
								ast.Inspect(st, func(m ast.Node) bool {
									if kv, ok := m.(*ast.KeyValueExpr); ok && kv.Value.Pos() <= a.Pos() && a.Pos() < kv.Value.End() {
										if k, ok := kv.Key.(*ast.Ident); ok {
											inKV = true
											good = false
											for _, want := range cfg.NondetSinks[fname+":"+txt] {
												if want == k.Name+":" {
													good = true
												}
											}
										}
									}
									return true
								})
							}
							obls = append(obls, effectObl{Name: fmt.Sprintf("%s#effect:nondeterministic-source:%s#%d", fname, txt, nsrc), OK: good,
								Detail: fmt.Sprintf("statement %q; allowed forms: %q", stmt, cfg.NondetSinks[fname+":"+txt]), Pos: p.fset.Position(a.Pos()).String()})
							if as, ok := st.(*ast.AssignStmt); ok && len(as.Lhs) == 1 && !inKV {
								if id, ok := as.Lhs[0].(*ast.Ident); ok {
									if o := info.ObjectOf(id); o != nil {
										tainted[o] = id.Name
									}
								}
							}
						}
						if s := info.Selections[a]; s != nil && s.Kind() == types.FieldVal {
							rt := s.Recv()
							if pt, ok := rt.Underlying().(*types.Pointer); ok {
								rt = pt.Elem()
							}
							if named, ok := types.Unalias(rt).(*types.Named); ok && named.Obj().Pkg() != nil {
								k := named.Obj().Pkg().Name() + "." + named.Obj().Name() + "." + a.Sel.Name
								if fieldReaders[k] == nil {
									fieldReaders[k] = map[string]bool{}
								}
								fieldReaders[k][fname] = true
							}
						}
					}
					return true
				})
				// uses of tainted locals
				if len(tainted) > 0 {
					var kvs []*ast.KeyValueExpr
					nuse := 0
					ast.Inspect(fd.Body, func(n ast.Node) bool {
						if kv, ok := n.(*ast.KeyValueExpr); ok {
							kvs = append(kvs, kv)
						}
						return true
					})
					ast.Inspect(fd.Body, func(n ast.Node) bool {
						id, ok := n.(*ast.Ident)
						if !ok {
							return true
						}
						name, isT := tainted[info.Uses[id]]
						if !isT {
							return true
						}
						good := false
						key := ""
						for _, kv := range kvs {
							if kv.Value.Pos() <= id.Pos() && id.Pos() < kv.Value.End() {
								if k, ok := kv.Key.(*ast.Ident); ok {
									key = k.Name
									for _, f := range cfg.TaintLocals[fname+":"+name] {
										if f == k.Name {
											good = true
										}
									}
								}
							}
						}
						nuse++
						obls = append(obls, effectObl{Name: fmt.Sprintf("%s#effect:time-or-random-value-flows-only-into-allowed-fields:%s#%d", fname, name, nuse),
							OK: good, Detail: fmt.Sprintf("use of %s as value of field %q; allowed fields %q", name, key, cfg.TaintLocals[fname+":"+name]), Pos: p.fset.Position(id.Pos()).String()})
						return true
					})
				}
				obls = append(obls, effectObl{Name: fname + "#effect:no-map-iteration", OK: mapRanges == 0, Pos: p.fset.Position(fd.Pos()).String(),
					Detail: "map iteration order is random"})
				obls = append(obls, effectObl{Name: fname + "#effect:no-goroutine-or-select", OK: gos == 0, Pos: p.fset.Position(fd.Pos()).String()})
			}
		}
	}
	var tf []string
	for k := range cfg.TaintFields {
		tf = append(tf, k)
	}
	sort.Strings(tf)
	for _, k := range tf {
		allowed := map[string]bool{}
		for _, f := range cfg.TaintFields[k] {
			allowed[f] = true
		}
		if fieldReaders[k] == nil {
			obls = append(obls, effectObl{Name: k + "#effect:time-or-random-field-exists", OK: false, Detail: "field is never selected: configuration out of date"})
			continue
		}
		var fs []string
		for f := range fieldReaders[k] {
			fs = append(fs, f)
		}
		sort.Strings(fs)
		for _, f := range fs {
			obls = append(obls, effectObl{Name: k + "#effect:time-or-random-field-used-only-in-allowed-functions:" + f, OK: allowed[f],
				Detail: fmt.Sprintf("field %s (holds a time/random value) is used in %s; allowed: %q", k, f, cfg.TaintFields[k])})
		}
	}
	sort.Slice(obls, func(i, j int) bool { return obls[i].Name < obls[j].Name })
	return obls
}
