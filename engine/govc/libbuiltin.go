package govc

import (
	"fmt"
	"go/ast"
	"go/types"
	"math/big"
)

// Built-in models of encoding/binary, derived mechanically from the static type of the data
// argument (go/types). They are part of the trusted base.

type fixedField struct {
	path  string // ".A.B" within the value ("" for scalars)
	typ   types.Type
	width int64
	off   int64
	blank bool
}

// fixedLayout enumerates the fixed-size fields of t in encoding/binary order.
func fixedLayout(t types.Type, prefix string, off *int64, out *[]fixedField) bool {
	switch u := t.Underlying().(type) {
	case *types.Basic:
		var w int64
		switch u.Kind() {
		case types.Int8, types.Uint8, types.Bool:
			w = 1
		case types.Int16, types.Uint16:
			w = 2
		case types.Int32, types.Uint32:
			w = 4
		case types.Int64, types.Uint64:
			w = 8
		default:
			return false
		}
		*out = append(*out, fixedField{path: prefix, typ: t, width: w, off: *off})
		*off += w
		return true
	case *types.Struct:
		for i := 0; i < u.NumFields(); i++ {
			f := u.Field(i)
			n0 := len(*out)
			if !fixedLayout(f.Type(), prefix+"."+f.Name(), off, out) {
				return false
			}
			if f.Name() == "_" {
				for k := n0; k < len(*out); k++ {
					(*out)[k].blank = true
				}
			}
		}
		return true
	case *types.Array:
		for i := int64(0); i < u.Len(); i++ {
			if !fixedLayout(u.Elem(), fmt.Sprintf("%s[%d]", prefix, i), off, out) {
				return false
			}
		}
		return true
	}
	return false
}

func fixedSize(t types.Type) (int64, bool) {
	var off int64
	var fs []fixedField
	if !fixedLayout(t, "", &off, &fs) {
		return 0, false
	}
	return off, true
}

// decodeWord: value of a width-byte big/little-endian field at byte offset off of inner (absolute base).
func decodeWord(inner *Term, base *Term, off int64, width int64, little bool, t types.Type) *Term {
	var v *Term = tZero
	for k := int64(0); k < width; k++ {
		b := mkSelect(inner, mkAdd(base, mkInt64(off+k)))
		shift := width - 1 - k
		if little {
			shift = k
		}
		v = mkAdd(v, mkMul(b, mkBig(new(big.Int).Lsh(big.NewInt(1), uint(8*shift)))))
	}
	lo, _, ok := intRange(t)
	if ok && lo.Sign() < 0 {
		half := mkBig(new(big.Int).Lsh(big.NewInt(1), uint(8*width-1)))
		full := mkBig(new(big.Int).Lsh(big.NewInt(1), uint(8*width)))
		v = mkIte(mkGe(v, half), mkSub(v, full), v)
	}
	return v
}

func (e *Exec) isLittle(st *State, order ast.Expr) bool {
	sel, ok := ast.Unparen(order).(*ast.SelectorExpr)
	if !ok {
		panic(unsupported("byte order expression"))
	}
	switch sel.Sel.Name {
	case "LittleEndian":
		return true
	case "BigEndian":
		return false
	}
	panic(unsupported("byte order " + sel.Sel.Name))
}

// libBuiltin handles calls modelled by the engine itself. ok=false: not a builtin.
func (e *Exec) libBuiltin(st *State, call *ast.CallExpr, fn *types.Func, recv Value, args []Value) (Value, bool) {
	name := libKey(fn.Origin())
	info := e.info()
	switch name {
	case "binary.Size":
		t := info.TypeOf(call.Args[0])
		if sl, ok := t.Underlying().(*types.Slice); ok {
			es, ok := fixedSize(sl.Elem())
			if !ok {
				return Scalar{mkInt64(-1), types.Typ[types.Int]}, true
			}
			sv := args[0].(SliceVal)
			return Scalar{mkMul(sv.Len, mkInt64(es)), types.Typ[types.Int]}, true
		}
		if p, ok := t.Underlying().(*types.Pointer); ok {
			t = p.Elem()
		}
		n, ok := fixedSize(t)
		if !ok {
			return Scalar{mkInt64(-1), types.Typ[types.Int]}, true
		}
		return Scalar{mkInt64(n), types.Typ[types.Int]}, true
	case "binary.Read":
		e.calleesUsed["binary.Read (engine model derived from the static type)"] = true
		return e.binaryRead(st, call, args), true
	case "binary.Decode":
		e.calleesUsed["binary.Decode (engine model derived from the static type)"] = true
		return e.binaryDecode(st, call, args), true
	}
	return nil, false
}

// targetOf resolves the data argument of binary.Read/Decode: a pointer to a fixed-size value
// (returns its location) or a slice of fixed-size values.
func (e *Exec) binaryTarget(st *State, arg ast.Expr, v Value) (loc Loc, sl *SliceVal, t types.Type) {
	at := e.info().TypeOf(arg)
	if _, isIface := at.Underlying().(*types.Interface); isIface {
		// passed through an interface parameter (readCommandTail): recover the boxed pointer
		if s, ok := v.(Scalar); ok && s.T.Op == "var" {
			if pv, ok := e.boxedPtrs[s.T.Name]; ok {
				return pv.Loc, nil, pv.Loc.ltype()
			}
		}
		panic(unsupported("binary data argument of interface type with unknown dynamic value"))
	}
	switch u := at.Underlying().(type) {
	case *types.Pointer:
		return e.derefLoc(st, v, arg), nil, u.Elem()
	case *types.Slice:
		sv := v.(SliceVal)
		return nil, &sv, u.Elem()
	}
	panic(unsupported("binary data argument of type " + at.String()))
}

// binaryRead models binary.Read(r, order, data): io.ReadFull of exactly Size(data) bytes followed
// by field-wise decoding. On error the target's contents are unspecified.
func (e *Exec) binaryRead(st *State, call *ast.CallExpr, args []Value) Value {
	little := e.isLittle(st, call.Args[1])
	loc, sl, t := e.binaryTarget(st, call.Args[2], args[2])
	var fs []fixedField
	var esz int64
	if !fixedLayout(t, "", &esz, &fs) {
		panic(unsupported("binary.Read of non-fixed-size type " + t.String()))
	}
	var total *Term = mkInt64(esz)
	if sl != nil {
		total = mkMul(sl.Len, mkInt64(esz))
	}
	// temporary buffer + io.ReadFull through its assumed contract
	byteT := types.NewSlice(types.Typ[types.Uint8])
	id := e.freshRef(st, "binbuf")
	tmp := SliceVal{Arr: id, Off: tZero, Len: total, Cap: total, Typ: byteT}
	c := e.prog.specs.Contracts["io.ReadFull"]
	if c == nil {
		panic(unsupported("binary.Read needs the assumed contract of io.ReadFull"))
	}
	rfSig := e.prog.libSig("io", "ReadFull")
	res := e.applyContract(st, c, rfSig, nil, []Value{args[0], tmp}, rfSig.Results(), call, "io.ReadFull (via binary.Read)")
	errV := res.(TupleVal).Vals[1]
	// decoding is guarded by err == nil
	okT := mkEq(asTerm(errV), tZero)
	inner := mkSelect(st.memMap(memFamily(types.Typ[types.Uint8]), SInt), id)
	e.decodeInto(st, loc, sl, t, fs, esz, inner, tZero, little, okT)
	return errV
}

// binaryDecode models binary.Decode(buf, order, data) (n int, err error).
func (e *Exec) binaryDecode(st *State, call *ast.CallExpr, args []Value) Value {
	little := e.isLittle(st, call.Args[1])
	src, _ := toSlice(args[0])
	loc, sl, t := e.binaryTarget(st, call.Args[2], args[2])
	var fs []fixedField
	var esz int64
	if !fixedLayout(t, "", &esz, &fs) {
		panic(unsupported("binary.Decode of non-fixed-size type " + t.String()))
	}
	if sl != nil {
		panic(unsupported("binary.Decode into a slice"))
	}
	okT := mkGe(src.Len, mkInt64(esz))
	inner := mkSelect(st.memMap(memFamily(types.Typ[types.Uint8]), SInt), src.Arr)
	e.decodeInto(st, loc, sl, t, fs, esz, inner, src.Off, little, okT)
	errV := e.nm.fresh("decerr", SInt)
	st.assume(mkGe(errV, tZero))
	st.assume(mkEq(mkEq(errV, tZero), okT))
	n := mkIte(okT, mkInt64(esz), tZero)
	tup := e.info().TypeOf(call).(*types.Tuple)
	return TupleVal{Vals: []Value{Scalar{n, types.Typ[types.Int]}, Scalar{errV, tup.At(1).Type()}}, Typ: tup}
}

func (e *Exec) decodeInto(st *State, loc Loc, sl *SliceVal, t types.Type, fs []fixedField, esz int64, inner, base *Term, little bool, okT *Term) {
	if sl == nil {
		// single value: scalars become fresh values constrained under ok; array fields keep their
		// identity (they are stored inline) and get fresh contents constrained under ok.
		cur := e.loadLoc(st, loc)
		v := e.decodedValue(st, cur, t)
		for _, f := range fs {
			if f.blank {
				continue
			}
			ft := e.leafAt(v, f.path)
			if ft == nil {
				if at, idx, ok := e.arrayLeafAt(st, v, f.path); ok {
					st.assume(mkImplies(okT, mkEq(at(idx), decodeWord(inner, base, f.off, f.width, little, f.typ))))
				}
				continue
			}
			st.assume(mkImplies(okT, mkEq(ft, decodeWord(inner, base, f.off, f.width, little, f.typ))))
		}
		// byte range facts for the consumed bytes (so that decoded values are in range)
		for k := int64(0); k < esz && k < 64; k++ {
			b := mkSelect(inner, mkAdd(base, mkInt64(k)))
			st.assume(mkAnd(mkLe(tZero, b), mkLe(b, mkInt64(255))))
		}
		e.storeLoc(st, loc, v)
		return
	}
	// slice of values: havoc the elements, state decoded facts per absolute index
	et := t
	var ls []leaf
	leavesOf(et, "", &ls)
	fam := memFamily(et)
	for _, l := range ls {
		key := fam + l.Path
		m := st.memMap(key, l.Sort)
		ni := e.nm.fresh("decoded", SArray(l.Sort))
		// find the fixed field for this leaf
		for _, f := range fs {
			if f.path != l.Path || f.blank {
				continue
			}
			y := mkVar("y!d", SInt)
			rel := mkSub(y, sl.Off)
			// byte offset of element y: esz*(y-base)
			bo := mkMul(rel, mkInt64(esz))
			var v *Term = tZero
			for k := int64(0); k < f.width; k++ {
				b := mkSelect(inner, mkAdd(base, mkAdd(bo, mkInt64(f.off+k))))
				shift := f.width - 1 - k
				if little {
					shift = k
				}
				v = mkAdd(v, mkMul(b, mkBig(new(big.Int).Lsh(big.NewInt(1), uint(8*shift)))))
			}
			inR := mkAnd(mkLe(sl.Off, y), mkLt(y, mkAdd(sl.Off, sl.Len)))
			st.assume(mkForall([]*Term{y}, mkImplies(mkAnd(okT, inR), mkAnd(mkEq(mkSelect(ni, y), v), inRangeTerm(mkSelect(ni, y), f.typ))), mkSelect(ni, y)))
		}
		// elements outside the slice window are unchanged
		old := mkSelect(m, sl.Arr)
		y2 := mkVar("y!d", SInt)
		st.assume(mkForall([]*Term{y2}, mkImplies(mkOr(mkLt(y2, sl.Off), mkGe(y2, mkAdd(sl.Off, sl.Len))), mkEq(mkSelect(ni, y2), mkSelect(old, y2))), mkSelect(ni, y2)))
		st.mem[key] = mkStore(m, sl.Arr, ni)
	}
	e.assumptions["binary.Read into a slice: bytes of the source are in 0..255 (decoded words are within their type's range)"] = true
}

// leafAt returns the scalar term at a field path (".A.B") of a value, nil for array elements.
func (e *Exec) leafAt(v Value, path string) *Term {
	cur := v
	for path != "" {
		if path[0] != '.' {
			return nil
		}
		j := 1
		for j < len(path) && path[j] != '.' && path[j] != '[' {
			j++
		}
		name := path[1:j]
		sv, ok := cur.(StructVal)
		if !ok {
			return nil
		}
		cur = sv.Fields[name]
		path = path[j:]
		if len(path) > 0 && path[0] == '[' {
			return nil
		}
	}
	if s, ok := cur.(Scalar); ok {
		return s.T
	}
	return nil
}

// libSig finds the signature of a library function by package name and function name.
func (p *Program) libSig(pkgName, fn string) *types.Signature {
	pk := p.byName[pkgName]
	if pk == nil {
		panic(unsupported("package " + pkgName + " not loaded"))
	}
	obj := pk.Scope().Lookup(fn)
	f, ok := obj.(*types.Func)
	if !ok {
		panic(unsupported("function " + pkgName + "." + fn + " not found"))
	}
	return f.Type().(*types.Signature)
}

// arrayLeafAt resolves a path ending in an array element (".Data[3]") of a scalar element type.
func (e *Exec) arrayLeafAt(st *State, v Value, path string) (func(int64) *Term, int64, bool) {
	cur := v
	for path != "" {
		if path[0] == '[' {
			av, ok := cur.(ArrayVal)
			if !ok {
				return nil, 0, false
			}
			var idx int64
			j := 1
			for j < len(path) && path[j] != ']' {
				idx = idx*10 + int64(path[j]-'0')
				j++
			}
			if j+1 != len(path) {
				return nil, 0, false
			}
			et := av.Typ.Underlying().(*types.Array).Elem()
			if reprOf(et) != rInt {
				return nil, 0, false
			}
			fam := memFamily(et)
			return func(i int64) *Term {
				return mkSelect(mkSelect(st.memMap(fam, SInt), av.Arr), mkInt64(i))
			}, idx, true
		}
		j := 1
		for j < len(path) && path[j] != '.' && path[j] != '[' {
			j++
		}
		sv, ok := cur.(StructVal)
		if !ok {
			return nil, 0, false
		}
		cur = sv.Fields[path[1:j]]
		path = path[j:]
	}
	return nil, 0, false
}

// decodedValue builds the post-decode value of type t from the current value: fresh scalars,
// same array identities with fresh contents.
func (e *Exec) decodedValue(st *State, cur Value, t types.Type) Value {
	switch x := cur.(type) {
	case StructVal:
		nf := map[string]Value{}
		for _, f := range structFields(x.Typ) {
			nf[f.Name()] = e.decodedValue(st, x.Fields[f.Name()], f.Type())
		}
		return StructVal{Fields: nf, Typ: x.Typ}
	case ArrayVal:
		et := x.Typ.Underlying().(*types.Array).Elem()
		var ls []leaf
		leavesOf(et, "", &ls)
		for _, l := range ls {
			key := memFamily(et) + l.Path
			m := st.memMap(key, l.Sort)
			ni := e.nm.fresh("decoded", SArray(l.Sort))
			if l.Sort.Kind == KInt && l.Typ != nil && x.N <= 64 {
				for k := int64(0); k < x.N; k++ {
					st.assume(inRangeTerm(mkSelect(ni, mkInt64(k)), l.Typ))
				}
			}
			st.mem[key] = mkStore(m, x.Arr, ni)
		}
		return x
	case Scalar:
		return e.symbolicValue(st, x.Typ, "decoded")
	}
	return e.symbolicValue(st, t, "decoded")
}
