package govc

import (
	"fmt"
	"go/constant"
	"go/types"
	"math/big"
	"strings"
)

// SpecTerm is a raw SMT term used as a spec value (arrays, ghost maps).
type SpecTerm struct{ T *Term }

func (SpecTerm) vtype() types.Type { return nil }

var (
	tyMathInt = types.Typ[types.UntypedInt]
	tyBool    = types.Typ[types.Bool]
	tyString  = types.Typ[types.String]
	tyNil     = types.Typ[types.UntypedNil]
)

func mathInt(t *Term) Value { return Scalar{t, tyMathInt} }
func boolVal(t *Term) Value { return Scalar{t, tyBool} }

// SpecEnv is the environment a spec expression is evaluated in.
type SpecEnv struct {
	e      *Exec
	st     *State
	old    *State
	vars   map[string]Value
	oldVar map[string]Value // values of the same names in the old state (parameters at entry)
	goName func(name string, st *State) (Value, bool)
	lastResort func(name string, st *State) (Value, bool) // consulted when nothing resolves an identifier
	pkg    *types.Package // package whose package-level names are visible
	inOld  bool
	what   string
	pre    *State // loop-entry state (for pre(...) in loop invariants)
	qdepth int    // quantifier nesting depth (canonical bound-variable names)
	rawArgs map[string]Value // call sites: argument values before conversion to the parameter type
	altPkg  string           // second package for spec-function lookup (interface contract's package)
	inPre  bool
}

func (env *SpecEnv) child() *SpecEnv {
	n := *env
	n.vars = make(map[string]Value, len(env.vars)+2)
	for k, v := range env.vars {
		n.vars[k] = v
	}
	return &n
}

func (env *SpecEnv) fail(x *SExpr, msg string) {
	panic(ContractError{fmt.Sprintf("%s: %s (in %q)", env.what, msg, x.Text)})
}

func (env *SpecEnv) evalBool(x *SExpr) *Term {
	v := env.eval(x)
	s, ok := v.(Scalar)
	if !ok || s.T.Sort.Kind != KBool {
		env.fail(x, "boolean expected")
	}
	return s.T
}

func (env *SpecEnv) evalInt(x *SExpr) *Term {
	v := env.eval(x)
	switch s := v.(type) {
	case Scalar:
		if s.T.Sort.Kind == KInt {
			return s.T
		}
	case PtrVal:
		return asTerm(s)
	}
	env.fail(x, fmt.Sprintf("integer expected, got %T", v))
	return nil
}

func (env *SpecEnv) state() *State {
	if env.inOld {
		return env.old
	}
	if env.inPre {
		return env.pre
	}
	return env.st
}

var quantCounter int

func (env *SpecEnv) eval(x *SExpr) Value {
	e := env.e
	switch x.Kind {
	case "int":
		return mathInt(mkBig(x.Int))
	case "str":
		return Scalar{e.strLit(x.Str), tyString}
	case "ident":
		return env.ident(x)
	case "unary":
		switch x.Op {
		case "!":
			return boolVal(mkNot(env.evalBool(x.Args[0])))
		case "-":
			return mathInt(mkNeg(env.evalInt(x.Args[0])))
		}
		env.fail(x, "unsupported unary "+x.Op)
	case "binary":
		return env.binary(x)
	case "ite":
		c := env.evalBool(x.Args[0])
		a, b := env.eval(x.Args[1]), env.eval(x.Args[2])
		return Scalar{mkIte(c, specTerm(a), specTerm(b)), a.vtype()}
	case "quant":
		n := env.child()
		var bound []*Term
		n.qdepth = env.qdepth + 1
		for _, b := range x.Binders {
			bv := mkVar(fmt.Sprintf("%s!b%d", b.Name, env.qdepth), specSort(b.Type))
			bound = append(bound, bv)
			if bv.Sort.Kind == KInt {
				n.vars[b.Name] = mathInt(bv)
			} else if bv.Sort.Kind == KBool {
				n.vars[b.Name] = boolVal(bv)
			} else {
				n.vars[b.Name] = SpecTerm{bv}
			}
		}
		env.st.quiet++
		if env.old != nil && env.old != env.st {
			env.old.quiet++
		}
		body := n.evalBool(x.Args[0])
		var pats [][]*Term
		for _, alt := range x.Pats {
			var ts []*Term
			for _, pe := range alt {
				ts = append(ts, specTerm(n.eval(pe)))
			}
			pats = append(pats, ts)
		}
		env.st.quiet--
		if env.old != nil && env.old != env.st {
			env.old.quiet--
		}
		if x.Op == "forall" {
			return boolVal(mkForallPats(bound, body, pats))
		}
		return boolVal(mkExists(bound, body))
	case "field":
		return env.field(x)
	case "index":
		base := env.eval(x.Args[0])
		switch b := base.(type) {
		case SliceVal, ArrayVal:
			i := env.evalInt(x.Args[1])
			return e.loadLoc(env.state(), sliceElemLoc(base, i))
		case SpecTerm:
			if b.T.Sort == SStr {
				return mathInt(strByte(b.T, env.evalInt(x.Args[1])))
			}
			if b.T.Sort.Kind != KArray {
				env.fail(x, "index of non-array spec term")
			}
			i := env.evalInt(x.Args[1])
			return wrapTerm(mkSelect(b.T, i))
		case Scalar:
			if b.T.Sort == SStr {
				return mathInt(strByte(b.T, env.evalInt(x.Args[1])))
			}
		}
		env.fail(x, fmt.Sprintf("cannot index %T", base))
	case "slice":
		base := env.eval(x.Args[0])
		sv, ok := toSlice(base)
		if !ok {
			if s, isS := base.(Scalar); isS && s.T.Sort == SStr {
				lo, hi := tZero, strLen(s.T)
				if x.Args[1] != nil {
					lo = env.evalInt(x.Args[1])
				}
				if x.Args[2] != nil {
					hi = env.evalInt(x.Args[2])
				}
				return Scalar{e.substr(env.st, s.T, lo, hi), tyString}
			}
			env.fail(x, "slice of non-slice")
		}
		lo, hi := tZero, sv.Len
		if x.Args[1] != nil {
			lo = env.evalInt(x.Args[1])
		}
		if x.Args[2] != nil {
			hi = env.evalInt(x.Args[2])
		}
		return SliceVal{Arr: sv.Arr, Off: mkAdd(sv.Off, lo), Len: mkSub(hi, lo), Cap: mkSub(sv.Cap, lo), Typ: sv.Typ}
	case "call":
		return env.call(x)
	}
	env.fail(x, "unsupported spec expression kind "+x.Kind)
	return nil
}

func wrapTerm(t *Term) Value {
	switch t.Sort.Kind {
	case KInt:
		return mathInt(t)
	case KBool:
		return boolVal(t)
	}
	if t.Sort == SStr {
		return Scalar{t, tyString}
	}
	return SpecTerm{t}
}

func toSlice(v Value) (SliceVal, bool) {
	switch x := v.(type) {
	case SliceVal:
		return x, true
	case ArrayVal:
		n := mkInt64(x.N)
		return SliceVal{Arr: x.Arr, Off: tZero, Len: n, Cap: n, Typ: types.NewSlice(x.Typ.Underlying().(*types.Array).Elem())}, true
	}
	return SliceVal{}, false
}

func specTerm(v Value) *Term {
	switch x := v.(type) {
	case Scalar:
		return x.T
	case SpecTerm:
		return x.T
	case PtrVal:
		return asTerm(x)
	}
	panic(ContractError{fmt.Sprintf("value %T used as a term", v)})
}

func (env *SpecEnv) ident(x *SExpr) Value {
	e := env.e
	name := x.Name
	switch name {
	case "true":
		return boolVal(tTrue)
	case "false":
		return boolVal(tFalse)
	case "nil":
		return Scalar{tZero, tyNil}
	}
	if env.inOld {
		if v, ok := env.oldVar[name]; ok {
			return v
		}
	}
	if v, ok := env.vars[name]; ok {
		return v
	}
	if env.goName != nil {
		if v, ok := env.goName(name, env.state()); ok {
			return v
		}
	}
	if g, ok := e.prog.specs.Ghosts[name]; ok {
		return wrapTerm(env.state().ghostVar(name, specSort(g.Type)))
	}
	if c, ok := e.prog.specs.Consts[name]; ok {
		return env.eval(c)
	}
	if env.pkg != nil {
		if obj := env.pkg.Scope().Lookup(name); obj != nil {
			if v, ok := e.globalValue(env.state(), obj); ok {
				return v
			}
		}
	}
	if env.lastResort != nil {
		if v, ok := env.lastResort(name, env.state()); ok {
			return v
		}
	}
	env.fail(x, "unknown identifier "+name)
	return nil
}

// globalValue gives the value of a package-level constant or variable.
func (e *Exec) globalValue(st *State, obj types.Object) (Value, bool) {
	switch o := obj.(type) {
	case *types.Const:
		return e.constValue(o.Val(), o.Type()), true
	case *types.Var:
		if o.Parent() != o.Pkg().Scope() {
			return nil, false
		}
		name := "global!" + o.Pkg().Name() + "." + o.Name()
		switch reprOf(o.Type()) {
		case rRef, rOpaque:
			t := mkApp(name, SInt)
			e.globalsUsed[name] = o
			return Scalar{t, o.Type()}, true
		case rInt:
			return Scalar{mkApp(name, SInt), o.Type()}, true
		case rString:
			return Scalar{mkApp(name, SStr), o.Type()}, true
		case rArray:
			// package-level array with constant initialiser (watermarks, magic numbers)
			if av, ok := e.globalArray(st, o); ok {
				return av, true
			}
		}
	}
	return nil, false
}

func (e *Exec) constValue(cv constant.Value, t types.Type) Value {
	switch cv.Kind() {
	case constant.Int:
		bi, ok := new(big.Int).SetString(cv.ExactString(), 10)
		if !ok {
			panic("constValue: bad int " + cv.ExactString())
		}
		return Scalar{mkBig(bi), t}
	case constant.Bool:
		return Scalar{mkBool(constant.BoolVal(cv)), t}
	case constant.String:
		return Scalar{e.strLit(constant.StringVal(cv)), t}
	}
	panic(unsupported("constant kind " + cv.Kind().String()))
}

func (env *SpecEnv) field(x *SExpr) Value {
	e := env.e
	// package-qualified name?
	if b := x.Args[0]; b.Kind == "ident" {
		if _, isVar := env.vars[b.Name]; !isVar {
			p := e.prog.pkgByName(b.Name)
			if env.pkg != nil {
				// a package imported by the contract's own package takes precedence (crypto/rand vs math/rand)
				for _, imp := range env.pkg.Imports() {
					if imp.Name() == b.Name {
						p = imp
						break
					}
				}
			}
			if p != nil {
				if env.goName != nil {
					if _, shadow := env.goName(b.Name, env.state()); shadow {
						goto notPkg
					}
				}
				obj := p.Scope().Lookup(x.Name)
				if obj == nil {
					env.fail(x, "no such package member")
				}
				v, ok := e.globalValue(env.state(), obj)
				if !ok {
					env.fail(x, "unsupported package member")
				}
				return v
			}
		}
	}
notPkg:
	base := env.eval(x.Args[0])
	st := env.state()
	switch b := base.(type) {
	case StructVal:
		if f, ok := b.Fields[x.Name]; ok {
			return f
		}
		// promoted through embedded struct
		for _, fv := range structFields(b.Typ) {
			if fv.Embedded() {
				if inner, ok := b.Fields[fv.Name()].(StructVal); ok {
					if f, ok := inner.Fields[x.Name]; ok {
						return f
					}
				}
			}
		}
		env.fail(x, "no field "+x.Name)
	case SliceVal:
		switch x.Name {
		case "$arr":
			return mathInt(b.Arr)
		case "$off":
			return mathInt(b.Off)
		case "$len":
			return mathInt(b.Len)
		case "$cap":
			return mathInt(b.Cap)
		}
	case ArrayVal:
		if x.Name == "$arr" {
			return mathInt(b.Arr)
		}
	case PtrVal:
		ft, ok := fieldType(b.Loc.ltype(), x.Name)
		if !ok {
			env.fail(x, "no field "+x.Name)
		}
		return e.loadLoc(st, e.fieldLocDeep(b.Loc, x.Name, ft))
	case Scalar:
		if p, ok := b.Typ.Underlying().(*types.Pointer); ok {
			loc := &HeapLoc{Fam: heapFamily(p.Elem()), Ref: b.T, Typ: p.Elem()}
			ft, ok := fieldType(p.Elem(), x.Name)
			if !ok {
				env.fail(x, "no field "+x.Name+" in "+p.Elem().String())
			}
			return e.loadLoc(st, e.fieldLocDeep(loc, x.Name, ft))
		}
	}
	env.fail(x, fmt.Sprintf("field %s of %T", x.Name, base))
	return nil
}

// fieldType finds field name (possibly promoted through embedded structs) in struct type t.
func fieldType(t types.Type, name string) (types.Type, bool) {
	obj, _, _ := types.LookupFieldOrMethod(t, true, nil, name)
	if obj == nil {
		// unexported field of another package: search manually
		for _, f := range structFields(t) {
			if f.Name() == name {
				return f.Type(), true
			}
		}
		for _, f := range structFields(t) {
			if f.Embedded() {
				if ft, ok := fieldType(f.Type(), name); ok {
					return ft, true
				}
			}
		}
		return nil, false
	}
	if v, ok := obj.(*types.Var); ok && v.IsField() {
		return v.Type(), true
	}
	return nil, false
}

// fieldLocDeep resolves a (possibly promoted) field to a location.
func (e *Exec) fieldLocDeep(l Loc, name string, ft types.Type) Loc {
	t := l.ltype()
	for _, f := range structFields(t) {
		if f.Name() == name {
			return fieldLoc(l, name, f.Type())
		}
	}
	for _, f := range structFields(t) {
		if f.Embedded() && reprOf(f.Type()) == rStruct {
			if _, ok := fieldType(f.Type(), name); ok {
				return e.fieldLocDeep(fieldLoc(l, f.Name(), f.Type()), name, ft)
			}
		}
	}
	panic(unsupported("field " + name + " of " + t.String()))
}

func (env *SpecEnv) binary(x *SExpr) Value {
	switch x.Op {
	case "&&":
		return boolVal(mkAnd(env.evalBool(x.Args[0]), env.evalBool(x.Args[1])))
	case "||":
		return boolVal(mkOr(env.evalBool(x.Args[0]), env.evalBool(x.Args[1])))
	case "==>":
		return boolVal(mkImplies(env.evalBool(x.Args[0]), env.evalBool(x.Args[1])))
	case "<==>":
		return boolVal(mkEq(env.evalBool(x.Args[0]), env.evalBool(x.Args[1])))
	case "==", "!=":
		a, b := env.eval(x.Args[0]), env.eval(x.Args[1])
		eq := env.valuesEqual(x, a, b)
		if x.Op == "!=" {
			eq = mkNot(eq)
		}
		return boolVal(eq)
	case "<", "<=", ">", ">=":
		return boolVal(mkCmp(x.Op, env.evalInt(x.Args[0]), env.evalInt(x.Args[1])))
	case "+":
		return mathInt(mkAdd(env.evalInt(x.Args[0]), env.evalInt(x.Args[1])))
	case "-":
		return mathInt(mkSub(env.evalInt(x.Args[0]), env.evalInt(x.Args[1])))
	case "*":
		return mathInt(mkMul(env.evalInt(x.Args[0]), env.evalInt(x.Args[1])))
	case "/":
		return mathInt(mkTDiv(env.evalInt(x.Args[0]), env.evalInt(x.Args[1])))
	case "%":
		return mathInt(mkTRem(env.evalInt(x.Args[0]), env.evalInt(x.Args[1])))
	case "++":
		a, b := specTerm(env.eval(x.Args[0])), specTerm(env.eval(x.Args[1]))
		if a.Sort != SStr || b.Sort != SStr {
			env.fail(x, "++ needs strings")
		}
		return Scalar{env.e.concat(env.state(), a, b), tyString}
	case "&", "|", "^", "<<", ">>", "&^":
		a, b := env.evalInt(x.Args[0]), env.evalInt(x.Args[1])
		return mathInt(env.e.bitop(env.st, x.Op, a, b, nil))
	}
	env.fail(x, "unsupported operator "+x.Op)
	return nil
}

func (env *SpecEnv) valuesEqual(x *SExpr, a, b Value) *Term {
	// nil comparisons on slices
	if isNilVal(b) {
		a, b = b, a
	}
	if isNilVal(a) {
		switch y := b.(type) {
		case SliceVal:
			return mkEq(y.Arr, tZero)
		case PtrVal:
			if hl, ok := y.Loc.(*HeapLoc); ok && hl.Path == "" {
				return mkEq(hl.Ref, tZero)
			}
			if ml, ok := y.Loc.(*MemLoc); ok {
				if _, isInt := interiorElem(y.Typ); isInt {
					return mkEq(ml.Arr, tZero)
				}
			}
			return tFalse
		case Scalar:
			return mkEq(y.T, tZero)
		}
	}
	if t, ok := ifaceVsConcrete(a, b); ok {
		return t
	}
	switch av := a.(type) {
	case Scalar, SpecTerm, PtrVal:
		ta, tb := specTerm(a), specTerm(b)
		if !sameSort(ta.Sort, tb.Sort) {
			env.fail(x, fmt.Sprintf("comparison of %s and %s", ta.Sort, tb.Sort))
		}
		if ta.Sort == SStr {
			return env.e.strEq(env.state(), ta, tb) // same expansion as Go's == on strings
		}
		return mkEq(ta, tb)
	case StructVal:
		bv, ok := b.(StructVal)
		if !ok {
			env.fail(x, "struct compared with non-struct")
		}
		var cs []*Term
		for _, f := range structFields(av.Typ) {
			cs = append(cs, env.valuesEqual(x, av.Fields[f.Name()], bv.Fields[f.Name()]))
		}
		return mkAnd(cs...)
	case SliceVal:
		bv, ok := b.(SliceVal)
		if !ok {
			env.fail(x, "slice compared with non-slice")
		}
		return mkAnd(mkEq(av.Arr, bv.Arr), mkEq(av.Off, bv.Off), mkEq(av.Len, bv.Len), mkEq(av.Cap, bv.Cap))
	case ArrayVal:
		bv, ok := b.(ArrayVal)
		if !ok {
			env.fail(x, "array compared with non-array")
		}
		return env.e.arraysEqual(env.state(), av, bv)
	}
	env.fail(x, fmt.Sprintf("cannot compare %T", a))
	return nil
}

func isNilVal(v Value) bool {
	s, ok := v.(Scalar)
	return ok && s.Typ == tyNil
}

func (env *SpecEnv) call(x *SExpr) Value {
	e := env.e
	switch x.Name {
	case "old":
		if len(x.Args) != 1 {
			env.fail(x, "old takes one argument")
		}
		if env.old == nil {
			env.fail(x, "old() not available here")
		}
		n := *env
		n.inOld = true
		k0 := len(env.old.pc)
		v := n.eval(x.Args[0])
		// type invariants of values loaded from the old state (slice shapes, ranges) are facts about
		// constants of that state: keep them in the current path condition too
		if env.st != nil && env.st != env.old && len(env.old.pc) > k0 {
			for _, t := range env.old.pc[k0:] {
				env.st.assume(t)
			}
		}
		return v
	case "pre":
		if env.pre == nil {
			env.fail(x, "pre() is only available in loop invariants")
		}
		n := *env
		n.inPre = true
		k0 := len(env.pre.pc)
		v := n.eval(x.Args[0])
		if env.st != nil && env.st != env.pre && len(env.pre.pc) > k0 {
			for _, t := range env.pre.pc[k0:] {
				env.st.assume(t)
			}
		}
		return v
	case "len", "cap":
		v := env.eval(x.Args[0])
		switch b := v.(type) {
		case SliceVal:
			if x.Name == "len" {
				return mathInt(b.Len)
			}
			return mathInt(b.Cap)
		case ArrayVal:
			return mathInt(mkInt64(b.N))
		case Scalar:
			if b.T.Sort == SStr {
				return mathInt(strLen(b.T))
			}
		case SpecTerm:
			if b.T.Sort == SStr {
				return mathInt(strLen(b.T))
			}
		}
		env.fail(x, "len of non-sequence")
	case "min":
		return mathInt(mkMin(env.evalInt(x.Args[0]), env.evalInt(x.Args[1])))
	case "max":
		return mathInt(mkMax(env.evalInt(x.Args[0]), env.evalInt(x.Args[1])))
	case "fresh":
		// allocated during the call: greater than the old allocation counter
		t := env.evalInt(x.Args[0])
		return boolVal(mkGt(t, env.old.ghostVar(allocGhost, SInt)))
	case "allocated":
		t := env.evalInt(x.Args[0])
		return boolVal(mkAnd(mkGt(t, tZero), mkLe(t, env.state().ghostVar(allocGhost, SInt))))
	case "typeis":
		// typeis(x, "pkg.Type")
		t := env.evalInt(x.Args[0])
		if x.Args[1].Kind != "str" {
			env.fail(x, "typeis(x, \"type key\")")
		}
		return boolVal(mkAnd(mkNe(t, tZero), mkEq(dynType(t), mkApp("type!"+x.Args[1].Str, SInt))))
	case "cast":
		// cast(x, "pkg.Type"): view the reference x as a *pkg.Type (meaningful under typeis)
		if len(x.Args) != 2 || x.Args[1].Kind != "str" {
			env.fail(x, "cast(x, \"pkg.Type\")")
		}
		t := e.prog.namedType(x.Args[1].Str)
		if t == nil {
			env.fail(x, "unknown type "+x.Args[1].Str)
		}
		if interiorTypes[typeKey(t)] {
			return ptrFromTerm(env.evalInt(x.Args[0]), t, types.NewPointer(t))
		}
		return Scalar{env.evalInt(x.Args[0]), types.NewPointer(t)}
	case "ofield":
		// ofield(x, "pkg.Type.Field.$leaf"): leaf of an exported field of a library struct (see evalSelector)
		if len(x.Args) != 2 || x.Args[1].Kind != "str" {
			env.fail(x, "ofield(x, \"pkg.Type.Field[.$leaf]\")")
		}
		return mathInt(mkApp("ofield!"+x.Args[1].Str, SInt, env.evalInt(x.Args[0])))
	case "unboxstr":
		return Scalar{mkApp("unbox!str", SStr, env.evalInt(x.Args[0])), tyString}
	case "unboxint":
		return mathInt(mkApp("unbox!int", SInt, env.evalInt(x.Args[0])))
	case "implements":
		t := env.evalInt(x.Args[0])
		if x.Args[1].Kind != "str" {
			env.fail(x, "implements(x, \"type key\")")
		}
		return boolVal(mkApp("implements!"+x.Args[1].Str, SBool, dynType(t)))
	case "bytesEq":
		// bytesEq(slice, off, "literal"): slice[off+q] == lit[q] for all q
		bv := env.eval(x.Args[0])
		off := env.evalInt(x.Args[1])
		if x.Args[2].Kind != "str" {
			env.fail(x, "bytesEq needs a literal")
		}
		var cs []*Term
		if st2, isT := bv.(SpecTerm); isT && st2.T.Sort.Kind == KArray {
			for q := 0; q < len(x.Args[2].Str); q++ {
				cs = append(cs, mkEq(mkSelect(st2.T, mkAdd(off, mkInt64(int64(q)))), mkInt64(int64(x.Args[2].Str[q]))))
			}
			return boolVal(mkAnd(cs...))
		}
		sv, ok := toSlice(bv)
		if !ok {
			env.fail(x, "bytesEq(slice|array term, off, literal)")
		}
		for q := 0; q < len(x.Args[2].Str); q++ {
			el := e.loadLoc(env.state(), sliceElemLoc(sv, mkAdd(off, mkInt64(int64(q)))))
			cs = append(cs, mkEq(asTerm(el), mkInt64(int64(x.Args[2].Str[q]))))
		}
		return boolVal(mkAnd(cs...))
	case "parr", "pidx":
		// parr(p) / pidx(p): backing array id and absolute index of an interior pointer
		av := env.eval(x.Args[0])
		if sc, isS := av.(Scalar); isS {
			if et, isInt := interiorElem(sc.Typ); isInt {
				av = ptrFromTerm(sc.T, et, sc.Typ)
			}
		}
		if sc, isS := av.(Scalar); isS {
			// a pointer seen as a heap reference (the function's own parameter): its array / index are
			// whatever the caller's pointer has - uninterpreted projections of the reference
			if _, isPtr := sc.Typ.Underlying().(*types.Pointer); isPtr {
				if x.Name == "parr" {
					return mathInt(mkApp("ptr!arr", SInt, sc.T))
				}
				return mathInt(mkApp("ptr!idx", SInt, sc.T))
			}
		}
		pv, ok := av.(PtrVal)
		if !ok {
			env.fail(x, x.Name+"(pointer)")
		}
		ml, ok := pv.Loc.(*MemLoc)
		if !ok {
			// pointer to a local variable or to a heap field: not an element of any backing array
			if x.Name == "parr" {
				return mathInt(mkInt64(-1))
			}
			return mathInt(tZero)
		}
		if x.Name == "parr" {
			return mathInt(ml.Arr)
		}
		return mathInt(ml.Idx)
	case "addr":
		// addr(p.f): pointer to the field (for predicates that take a pointer)
		loc, typ := e.modLoc(env, x.Args[0])
		return PtrVal{Loc: loc, Typ: types.NewPointer(typ)}
	case "mkslice":
		// mkslice(arr, off, len): a []byte slice value from its components (cap = len)
		a, o, l := env.evalInt(x.Args[0]), env.evalInt(x.Args[1]), env.evalInt(x.Args[2])
		return SliceVal{a, o, l, l, types.NewSlice(types.Typ[types.Uint8])}
	case "raw":
		// raw(s, x): element at absolute index x of the backing array of slice s
		sv, ok := toSlice(env.eval(x.Args[0]))
		if !ok {
			env.fail(x, "raw(slice, index)")
		}
		et := sv.Typ.Underlying().(*types.Slice).Elem()
		return e.loadLoc(env.state(), &MemLoc{Fam: memFamily(et), Arr: sv.Arr, Idx: env.evalInt(x.Args[1]), Typ: et})
	case "at":
		// at(s, y): element at absolute index y of the backing array of s (any element type)
		sv, ok := toSlice(env.eval(x.Args[0]))
		if !ok {
			env.fail(x, "at(slice, index)")
		}
		et := sv.Typ.Underlying().(*types.Slice).Elem()
		return e.loadLoc(env.state(), &MemLoc{Fam: memFamily(et), Arr: sv.Arr, Idx: env.evalInt(x.Args[1]), Typ: et})
	case "end":
		sv, ok := toSlice(env.eval(x.Args[0]))
		if !ok {
			env.fail(x, "end(slice)")
		}
		return mathInt(mkAdd(sv.Off, sv.Len))
	case "inner":
		// inner(s): the backing array of slice s as an array value (absolute indices)
		sv, ok := toSlice(env.eval(x.Args[0]))
		if !ok {
			env.fail(x, "inner(slice)")
		}
		et := sv.Typ.Underlying().(*types.Slice).Elem()
		if reprOf(et) != rInt {
			env.fail(x, "inner() needs a slice of integers")
		}
		arrT := mkSelect(env.state().memMap(memFamily(et), SInt), sv.Arr)
		if lo, hi, ok := intRange(et); ok && env.state().quiet == 0 {
			// type invariant of memory: every cell of an integer array holds a value of its element type
			k := mkVar("x!inner", SInt)
			env.state().assume(mkForall([]*Term{k}, mkAnd(mkLe(mkBig(lo), mkSelect(arrT, k)), mkLe(mkSelect(arrT, k), mkBig(hi))), mkSelect(arrT, k)))
		}
		return SpecTerm{arrT}
	case "leaf":
		// leaf(s, f.g): one scalar component of the elements of slice s, as an array over absolute indices
		// (the part of the memory a sum or count over the elements depends on, made an explicit argument)
		if len(x.Args) != 2 {
			env.fail(x, "leaf(slice, field path)")
		}
		sv, ok := toSlice(env.eval(x.Args[0]))
		if !ok {
			env.fail(x, "leaf(slice, field path)")
		}
		et := sv.Typ.Underlying().(*types.Slice).Elem()
		var pathOf func(a *SExpr) string
		pathOf = func(a *SExpr) string {
			switch a.Kind {
			case "str":
				return "." + a.Str
			case "ident":
				return "." + a.Name
			case "field":
				return pathOf(a.Args[0]) + "." + a.Name
			}
			env.fail(x, "leaf(): the second operand is a field path")
			return ""
		}
		want := pathOf(x.Args[1])
		var ls []leaf
		leavesOf(et, "", &ls)
		for _, lf := range ls {
			if lf.Path == want {
				return SpecTerm{mkSelect(env.state().memMap(memFamily(et)+lf.Path, lf.Sort), sv.Arr)}
			}
		}
		env.fail(x, "leaf(): no scalar component "+want+" in "+et.String())
		return nil
	case "base":
		sv, ok := toSlice(env.eval(x.Args[0]))
		if !ok {
			env.fail(x, "base(slice)")
		}
		return mathInt(sv.Off)
	case "deref":
		v := env.eval(x.Args[0])
		loc, _ := e.pointeeLoc(env, x, v)
		return e.loadLoc(env.state(), loc)
	case "mapset":
		m := specTerm(env.eval(x.Args[0]))
		k := env.evalInt(x.Args[1])
		v := specTerm(env.eval(x.Args[2]))
		return SpecTerm{mkStore(m, k, v)}
	case "apply", "applyPre":
		fv := env.eval(x.Args[0])
		clo, ok := fv.(ClosureVal)
		if !ok {
			env.fail(x, fmt.Sprintf("%s needs a function literal value, got %T", x.Name, fv))
		}
		var args []Value
		for _, a := range x.Args[1:] {
			args = append(args, env.eval(a))
		}
		return env.applyClosure(x, clo, args, x.Name == "applyPre")
	}
	// method-style helpers
	if strings.HasPrefix(x.Name, ".") {
		env.fail(x, "method calls are not available in specs: "+x.Name)
	}
	pkgPath := ""
	if env.pkg != nil {
		pkgPath = env.pkg.Path()
	}
	sf := e.prog.specs.lookupFunc(x.Name, pkgPath)
	if env.altPkg != "" {
		if own, ok := e.prog.specs.Funcs[pkgPath+"#"+x.Name]; ok {
			sf = own
		} else if alt, ok := e.prog.specs.Funcs[env.altPkg+"#"+x.Name]; ok {
			sf = alt
		}
	}
	if sf != nil {
		if len(x.Args) != len(sf.Params) {
			env.fail(x, "wrong number of arguments for "+x.Name)
		}
		var args []Value
		for _, a := range x.Args {
			args = append(args, env.eval(a))
		}
		if sf.Body != nil {
			n := &SpecEnv{e: e, st: env.st, old: env.old, vars: map[string]Value{}, pkg: env.pkg, inOld: env.inOld,
				what: "spec " + sf.Name, oldVar: nil, qdepth: env.qdepth, pre: env.pre, inPre: env.inPre, altPkg: env.altPkg}
			if sf.Pkg != "" {
				if dp := e.prog.pkgs[sf.Pkg]; dp != nil {
					n.pkg = dp.Types
				}
			}
			for i, p := range sf.Params {
				n.vars[p.Name] = args[i]
			}
			return n.eval(sf.Body)
		}
		var ts []*Term
		for i, a := range args {
			t := specTerm(a)
			if !sameSort(t.Sort, specSort(sf.Params[i].Type)) {
				env.fail(x, fmt.Sprintf("argument %d of %s has sort %s", i, sf.Name, t.Sort))
			}
			ts = append(ts, t)
		}
		return wrapTerm(mkApp("spec!"+sf.Name, specSort(sf.Result), ts...))
	}
	if g, ok := e.prog.specs.Ghosts[x.Name]; ok {
		// ghost map application: name(k) or name(k1,k2)
		t := env.state().ghostVar(x.Name, specSort(g.Type))
		for _, a := range x.Args {
			t = mkSelect(t, env.evalInt(a))
		}
		return wrapTerm(t)
	}
	env.fail(x, "unknown function "+x.Name)
	return nil
}

// ---------------------------------------------------------------------------------------------
// Strings
// ---------------------------------------------------------------------------------------------

func (e *Exec) strLit(s string) *Term {
	name := fmt.Sprintf("str!%x", s)
	if len(name) > 80 {
		name = fmt.Sprintf("str!%x!%d", s[:32], len(s))
		if prev, ok := e.prog.strLits[name]; ok && prev != s {
			name = fmt.Sprintf("str!h%x", hashString(s))
		}
	}
	e.prog.strLits[name] = s
	return mkApp(name, SStr)
}

func hashString(s string) uint64 {
	var h uint64 = 1469598103934665603
	for i := 0; i < len(s); i++ {
		h ^= uint64(s[i])
		h *= 1099511628211
	}
	return h
}

// substr is an uninterpreted function with length facts instantiated on use.
func (e *Exec) substr(st *State, s, lo, hi *Term) *Term {
	if lo.isInt() && lo.Val.Sign() == 0 && termEq(hi, strLen(s)) {
		return s
	}
	r := mkApp("substr", SStr, s, lo, hi)
	if st.quiet == 0 {
		st.assume(mkImplies(mkAnd(mkLe(tZero, lo), mkLe(lo, hi), mkLe(hi, strLen(s))), mkEq(strLen(r), mkSub(hi, lo))))
	}
	return r
}

// applyClosure evaluates a contracted pure function literal through its contract: the clause
// labelled @def must have the form `result == E`; apply(f, args) is E with the parameters bound.
// applyPre(f, args) is the conjunction of its preconditions.
func (env *SpecEnv) applyClosure(x *SExpr, clo ClosureVal, args []Value, pre bool) Value {
	e := env.e
	c, names := e.prog.closureContract(clo.Lit)
	if c == nil {
		env.fail(x, "function literal has no contract")
	}
	n := &SpecEnv{e: e, st: env.st, old: env.old, vars: map[string]Value{}, pkg: env.pkg, inOld: env.inOld, what: "apply " + c.Key, qdepth: env.qdepth}
	if pk := e.prog.pkgs[c.Pkg]; pk != nil {
		n.pkg = pk.Types
	}
	for i, nm := range names {
		if i < len(args) {
			n.vars[nm] = args[i]
		}
	}
	if pre {
		var cs []*Term
		for _, r := range c.Requires {
			cs = append(cs, n.evalBool(r.Expr))
		}
		return boolVal(mkAnd(cs...))
	}
	for _, en := range c.Ensures {
		if en.Label == "def" && en.Expr.Kind == "binary" && en.Expr.Op == "==" && en.Expr.Args[0].Kind == "ident" && en.Expr.Args[0].Name == "result" {
			return n.eval(en.Expr.Args[1])
		}
	}
	env.fail(x, "contract of "+c.Key+" has no clause `ensures result == E @def`")
	return nil
}

// ifaceVsConcrete: comparison of an interface value with a concrete scalar (e.g. err == syscall.EPERM):
// equal iff the dynamic type is the concrete type and the boxed value is equal.
func ifaceVsConcrete(a, b Value) (*Term, bool) {
	as, ok1 := a.(Scalar)
	bs, ok2 := b.(Scalar)
	if !ok1 || !ok2 || as.Typ == nil || bs.Typ == nil {
		return nil, false
	}
	isIface := func(t types.Type) bool {
		_, ok := t.Underlying().(*types.Interface)
		return ok
	}
	if isIface(bs.Typ) && !isIface(as.Typ) {
		as, bs = bs, as
	}
	if !isIface(as.Typ) || isIface(bs.Typ) {
		return nil, false
	}
	if b, isB := bs.Typ.(*types.Basic); isB && b.Info()&types.IsUntyped != 0 {
		return nil, false
	}
	var unboxed *Term
	switch reprOf(bs.Typ) {
	case rInt:
		unboxed = mkApp("unbox!int", SInt, as.T)
	case rString:
		unboxed = mkApp("unbox!str", SStr, as.T)
	case rBool:
		unboxed = mkApp("unbox!bool", SBool, as.T)
	default:
		return nil, false
	}
	return mkAnd(mkNe(as.T, tZero), mkEq(dynType(as.T), typeIdTerm(bs.Typ)), mkEq(unboxed, bs.T)), true
}
