package main

import (
	"os"

	"govc/govc"
)

func main() { os.Exit(govc.Main(os.Args[1:])) }
