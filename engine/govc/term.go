package govc

import (
	"fmt"
	"math/big"
	"sort"
	"strings"
)

// ---------------------------------------------------------------------------------------------
// Sorts
// ---------------------------------------------------------------------------------------------

type SortKind int

const (
	KInt SortKind = iota
	KBool
	KArray // Int-indexed
	KUnint
	KBV
)

type Sort struct {
	Kind  SortKind
	Elem  *Sort  // KArray
	Name  string // KUnint
	Width int    // KBV
}

var (
	SInt  = &Sort{Kind: KInt}
	SBool = &Sort{Kind: KBool}
	SStr  = &Sort{Kind: KUnint, Name: "Str"}
)

var arraySorts = map[string]*Sort{}
var bvSorts = map[int]*Sort{}

func SArray(elem *Sort) *Sort {
	k := elem.String()
	if s, ok := arraySorts[k]; ok {
		return s
	}
	s := &Sort{Kind: KArray, Elem: elem}
	arraySorts[k] = s
	return s
}

func SBV(w int) *Sort {
	if s, ok := bvSorts[w]; ok {
		return s
	}
	s := &Sort{Kind: KBV, Width: w}
	bvSorts[w] = s
	return s
}

func (s *Sort) String() string {
	switch s.Kind {
	case KInt:
		return "Int"
	case KBool:
		return "Bool"
	case KArray:
		return "(Array Int " + s.Elem.String() + ")"
	case KBV:
		return fmt.Sprintf("(_ BitVec %d)", s.Width)
	default:
		return s.Name
	}
}

func sameSort(a, b *Sort) bool { return a == b || a.String() == b.String() }

// ---------------------------------------------------------------------------------------------
// Terms
// ---------------------------------------------------------------------------------------------

type Term struct {
	Op    string // "var" "int" "bool" "app" "forall" "exists" or an SMT operator
	Args  []*Term
	Sort  *Sort
	Name  string   // var / app name
	Val   *big.Int // int / bv literal
	B     bool     // bool literal
	Bound []*Term  // quantifier-bound vars
	Pats  [][]*Term // quantifier patterns: alternatives of multi-patterns (optional)
	str   string
}

func mkInt64(v int64) *Term { return &Term{Op: "int", Sort: SInt, Val: big.NewInt(v)} }
func mkBig(v *big.Int) *Term {
	return &Term{Op: "int", Sort: SInt, Val: new(big.Int).Set(v)}
}

var (
	tTrue  = &Term{Op: "bool", Sort: SBool, B: true}
	tFalse = &Term{Op: "bool", Sort: SBool, B: false}
	tZero  = mkInt64(0)
	tOne   = mkInt64(1)
)

func mkBool(b bool) *Term {
	if b {
		return tTrue
	}
	return tFalse
}

func mkVar(name string, s *Sort) *Term { return &Term{Op: "var", Name: name, Sort: s} }

func mkApp(name string, s *Sort, args ...*Term) *Term {
	return &Term{Op: "app", Name: name, Sort: s, Args: args}
}

func (t *Term) isInt() bool   { return t.Op == "int" }
func (t *Term) isTrue() bool  { return t.Op == "bool" && t.B }
func (t *Term) isFalse() bool { return t.Op == "bool" && !t.B }

func termEq(a, b *Term) bool {
	if a == b {
		return true
	}
	return a.String() == b.String()
}

func mkOp(op string, s *Sort, args ...*Term) *Term { return &Term{Op: op, Sort: s, Args: args} }

func mkAdd(a, b *Term) *Term {
	if a.isInt() && b.isInt() {
		return mkBig(new(big.Int).Add(a.Val, b.Val))
	}
	if a.isInt() && a.Val.Sign() == 0 {
		return b
	}
	if b.isInt() && b.Val.Sign() == 0 {
		return a
	}
	// (x + c1) + c2
	if b.isInt() && a.Op == "+" && len(a.Args) == 2 && a.Args[1].isInt() {
		return mkAdd(a.Args[0], mkBig(new(big.Int).Add(a.Args[1].Val, b.Val)))
	}
	return mkOp("+", SInt, a, b)
}

func mkSub(a, b *Term) *Term {
	if a.isInt() && b.isInt() {
		return mkBig(new(big.Int).Sub(a.Val, b.Val))
	}
	if b.isInt() && b.Val.Sign() == 0 {
		return a
	}
	if b.isInt() {
		return mkAdd(a, mkBig(new(big.Int).Neg(b.Val)))
	}
	if termEq(a, b) {
		return tZero
	}
	return mkOp("-", SInt, a, b)
}

func mkNeg(a *Term) *Term { return mkSub(tZero, a) }

func mkMul(a, b *Term) *Term {
	if a.isInt() && b.isInt() {
		return mkBig(new(big.Int).Mul(a.Val, b.Val))
	}
	if a.isInt() && !b.isInt() {
		a, b = b, a
	}
	if b.isInt() {
		if b.Val.Sign() == 0 {
			return tZero
		}
		if b.Val.Cmp(big.NewInt(1)) == 0 {
			return a
		}
	}
	return mkOp("*", SInt, a, b)
}

// Euclidean div/mod as in SMT-LIB.
func mkEDiv(a, b *Term) *Term {
	if a.isInt() && b.isInt() && b.Val.Sign() != 0 {
		q, _ := new(big.Int).DivMod(a.Val, b.Val, new(big.Int))
		return mkBig(q)
	}
	return mkOp("div", SInt, a, b)
}

func mkEMod(a, b *Term) *Term {
	if a.isInt() && b.isInt() && b.Val.Sign() != 0 {
		_, m := new(big.Int).DivMod(a.Val, b.Val, new(big.Int))
		return mkBig(m)
	}
	return mkOp("mod", SInt, a, b)
}

// Go truncated division.
func mkTDiv(a, b *Term) *Term {
	if a.isInt() && b.isInt() && b.Val.Sign() != 0 {
		return mkBig(new(big.Int).Quo(a.Val, b.Val))
	}
	if b.isInt() && b.Val.Sign() > 0 {
		return mkIte(mkGe(a, tZero), mkEDiv(a, b), mkNeg(mkEDiv(mkNeg(a), b)))
	}
	absq := mkEDiv(mkAbs(a), mkAbs(b))
	sameSign := mkEq(mkGe(a, tZero), mkGe(b, tZero))
	return mkIte(sameSign, absq, mkNeg(absq))
}

func mkTRem(a, b *Term) *Term {
	if a.isInt() && b.isInt() && b.Val.Sign() != 0 {
		return mkBig(new(big.Int).Rem(a.Val, b.Val))
	}
	if b.isInt() && b.Val.Sign() > 0 {
		return mkIte(mkGe(a, tZero), mkEMod(a, b), mkNeg(mkEMod(mkNeg(a), b)))
	}
	return mkSub(a, mkMul(b, mkTDiv(a, b)))
}

func mkAbs(a *Term) *Term {
	if a.isInt() {
		return mkBig(new(big.Int).Abs(a.Val))
	}
	return mkIte(mkGe(a, tZero), a, mkNeg(a))
}

func mkCmp(op string, a, b *Term) *Term {
	if a.isInt() && b.isInt() {
		c := a.Val.Cmp(b.Val)
		switch op {
		case "<":
			return mkBool(c < 0)
		case "<=":
			return mkBool(c <= 0)
		case ">":
			return mkBool(c > 0)
		case ">=":
			return mkBool(c >= 0)
		}
	}
	if termEq(a, b) {
		return mkBool(op == "<=" || op == ">=")
	}
	return mkOp(op, SBool, a, b)
}

func mkLt(a, b *Term) *Term { return mkCmp("<", a, b) }
func mkLe(a, b *Term) *Term { return mkCmp("<=", a, b) }
func mkGt(a, b *Term) *Term { return mkCmp(">", a, b) }
func mkGe(a, b *Term) *Term { return mkCmp(">=", a, b) }

func mkEq(a, b *Term) *Term {
	if a.isInt() && b.isInt() {
		return mkBool(a.Val.Cmp(b.Val) == 0)
	}
	if a.Op == "bool" && b.Op == "bool" {
		return mkBool(a.B == b.B)
	}
	if a.Op == "bool" {
		a, b = b, a
	}
	if b.Op == "bool" {
		if b.B {
			return a
		}
		return mkNot(a)
	}
	if termEq(a, b) {
		return tTrue
	}
	if !sameSort(a.Sort, b.Sort) {
		panic(fmt.Sprintf("mkEq: sort mismatch %s vs %s (%s = %s)", a.Sort, b.Sort, a, b))
	}
	return mkOp("=", SBool, a, b)
}

func mkNe(a, b *Term) *Term { return mkNot(mkEq(a, b)) }

func mkNot(a *Term) *Term {
	if a.Op == "bool" {
		return mkBool(!a.B)
	}
	if a.Op == "not" {
		return a.Args[0]
	}
	switch a.Op {
	case "<":
		return mkOp(">=", SBool, a.Args...)
	case "<=":
		return mkOp(">", SBool, a.Args...)
	case ">":
		return mkOp("<=", SBool, a.Args...)
	case ">=":
		return mkOp("<", SBool, a.Args...)
	}
	return mkOp("not", SBool, a)
}

func mkAnd(args ...*Term) *Term {
	var out []*Term
	for _, a := range args {
		if a.isTrue() {
			continue
		}
		if a.isFalse() {
			return tFalse
		}
		if a.Op == "and" {
			out = append(out, a.Args...)
		} else {
			out = append(out, a)
		}
	}
	switch len(out) {
	case 0:
		return tTrue
	case 1:
		return out[0]
	}
	return mkOp("and", SBool, out...)
}

func mkOr(args ...*Term) *Term {
	var out []*Term
	for _, a := range args {
		if a.isFalse() {
			continue
		}
		if a.isTrue() {
			return tTrue
		}
		if a.Op == "or" {
			out = append(out, a.Args...)
		} else {
			out = append(out, a)
		}
	}
	switch len(out) {
	case 0:
		return tFalse
	case 1:
		return out[0]
	}
	return mkOp("or", SBool, out...)
}

func mkImplies(a, b *Term) *Term {
	if a.isTrue() {
		return b
	}
	if a.isFalse() || b.isTrue() {
		return tTrue
	}
	if b.isFalse() {
		return mkNot(a)
	}
	return mkOp("=>", SBool, a, b)
}

func mkIte(c, a, b *Term) *Term {
	if c.isTrue() {
		return a
	}
	if c.isFalse() {
		return b
	}
	if termEq(a, b) {
		return a
	}
	if a.Sort.Kind == KBool {
		if a.isTrue() && b.isFalse() {
			return c
		}
		if a.isFalse() && b.isTrue() {
			return mkNot(c)
		}
	}
	return mkOp("ite", a.Sort, c, a, b)
}

func mkMin(a, b *Term) *Term { return mkIte(mkLe(a, b), a, b) }
func mkMax(a, b *Term) *Term { return mkIte(mkGe(a, b), a, b) }

func mkSelect(arr, idx *Term) *Term {
	if arr.Sort.Kind != KArray {
		panic("mkSelect on non-array " + arr.String())
	}
	// select(store(a,i,v), j): resolve when i, j syntactically equal or both distinct literals
	for arr.Op == "store" {
		i := arr.Args[1]
		if termEq(i, idx) {
			return arr.Args[2]
		}
		if i.isInt() && idx.isInt() {
			arr = arr.Args[0]
			continue
		}
		break
	}
	return mkOp("select", arr.Sort.Elem, arr, idx)
}

func mkStore(arr, idx, v *Term) *Term {
	if arr.Sort.Kind != KArray {
		panic("mkStore on non-array")
	}
	if !sameSort(arr.Sort.Elem, v.Sort) {
		panic(fmt.Sprintf("mkStore: elem sort %s vs value sort %s", arr.Sort.Elem, v.Sort))
	}
	if arr.Op == "store" && termEq(arr.Args[1], idx) {
		arr = arr.Args[0]
	}
	return mkOp("store", arr.Sort, arr, idx, v)
}

func mkForall(bound []*Term, body *Term, pats ...*Term) *Term {
	if body.isTrue() {
		return tTrue
	}
	if len(bound) == 0 {
		return body
	}
	t := &Term{Op: "forall", Sort: SBool, Bound: bound, Args: []*Term{body}}
	if len(pats) > 0 {
		t.Pats = [][]*Term{pats}
	}
	return t
}

func mkForallPats(bound []*Term, body *Term, pats [][]*Term) *Term {
	if body.isTrue() {
		return tTrue
	}
	if len(bound) == 0 {
		return body
	}
	return &Term{Op: "forall", Sort: SBool, Bound: bound, Args: []*Term{body}, Pats: pats}
}

func mkExists(bound []*Term, body *Term) *Term {
	if body.isFalse() {
		return tFalse
	}
	if len(bound) == 0 {
		return body
	}
	return &Term{Op: "exists", Sort: SBool, Bound: bound, Args: []*Term{body}}
}

func smtName(n string) string {
	ok := true
	for _, r := range n {
		if !(r >= 'a' && r <= 'z' || r >= 'A' && r <= 'Z' || r >= '0' && r <= '9' || strings.ContainsRune("_.!$%&*-+/<>=?@^~#", r)) {
			ok = false
			break
		}
	}
	if ok && n != "" && !(n[0] >= '0' && n[0] <= '9') {
		return n
	}
	return "|" + strings.ReplaceAll(strings.ReplaceAll(n, "|", "!"), "\\", "/") + "|"
}

func (t *Term) String() string {
	if t.str != "" {
		return t.str
	}
	var s string
	switch t.Op {
	case "var":
		s = smtName(t.Name)
	case "int":
		if t.Sort.Kind == KBV {
			s = fmt.Sprintf("(_ bv%s %d)", t.Val.String(), t.Sort.Width)
		} else if t.Val.Sign() < 0 {
			s = "(- " + new(big.Int).Neg(t.Val).String() + ")"
		} else {
			s = t.Val.String()
		}
	case "bool":
		if t.B {
			s = "true"
		} else {
			s = "false"
		}
	case "app":
		if len(t.Args) == 0 {
			s = smtName(t.Name)
		} else {
			var b strings.Builder
			b.WriteString("(" + smtName(t.Name))
			for _, a := range t.Args {
				b.WriteString(" " + a.String())
			}
			b.WriteString(")")
			s = b.String()
		}
	case "forall", "exists":
		var b strings.Builder
		b.WriteString("(" + t.Op + " (")
		for i, v := range t.Bound {
			if i > 0 {
				b.WriteString(" ")
			}
			b.WriteString("(" + smtName(v.Name) + " " + v.Sort.String() + ")")
		}
		b.WriteString(") ")
		if len(t.Pats) > 0 {
			b.WriteString("(! " + t.Args[0].String())
			for _, alt := range t.Pats {
				b.WriteString(" :pattern (")
				for i, p := range alt {
					if i > 0 {
						b.WriteString(" ")
					}
					b.WriteString(p.String())
				}
				b.WriteString(")")
			}
			b.WriteString(")")
		} else {
			b.WriteString(t.Args[0].String())
		}
		b.WriteString(")")
		s = b.String()
	default:
		var b strings.Builder
		b.WriteString("(" + t.Op)
		for _, a := range t.Args {
			b.WriteString(" " + a.String())
		}
		b.WriteString(")")
		s = b.String()
	}
	t.str = s
	return s
}

// substitute replaces variables by name.
func (t *Term) subst(m map[string]*Term) *Term {
	if len(m) == 0 {
		return t
	}
	switch t.Op {
	case "var":
		if r, ok := m[t.Name]; ok {
			return r
		}
		return t
	case "int", "bool":
		return t
	}
	changed := false
	args := make([]*Term, len(t.Args))
	for i, a := range t.Args {
		args[i] = a.subst(m)
		if args[i] != a {
			changed = true
		}
	}
	if !changed {
		return t
	}
	return &Term{Op: t.Op, Args: args, Sort: t.Sort, Name: t.Name, Val: t.Val, B: t.B, Bound: t.Bound, Pats: t.Pats}
}

// ---------------------------------------------------------------------------------------------
// Symbol collection
// ---------------------------------------------------------------------------------------------

type symtab struct {
	vars  map[string]*Sort
	funcs map[string]*Term // one sample application (for signature)
	sorts map[string]bool
}

func newSymtab() *symtab {
	return &symtab{vars: map[string]*Sort{}, funcs: map[string]*Term{}, sorts: map[string]bool{}}
}

func (st *symtab) noteSort(s *Sort) {
	switch s.Kind {
	case KUnint:
		st.sorts[s.Name] = true
	case KArray:
		st.noteSort(s.Elem)
	}
}

func (st *symtab) collect(t *Term, bound map[string]bool) {
	switch t.Op {
	case "var":
		if !bound[t.Name] {
			if old, ok := st.vars[t.Name]; ok && !sameSort(old, t.Sort) {
				panic(fmt.Sprintf("variable %s used at sorts %s and %s", t.Name, old, t.Sort))
			}
			st.vars[t.Name] = t.Sort
			st.noteSort(t.Sort)
		}
	case "app":
		if _, ok := st.funcs[t.Name]; !ok {
			st.funcs[t.Name] = t
			st.noteSort(t.Sort)
			for _, a := range t.Args {
				st.noteSort(a.Sort)
			}
		}
		for _, a := range t.Args {
			st.collect(a, bound)
		}
	case "forall", "exists":
		nb := map[string]bool{}
		for k := range bound {
			nb[k] = true
		}
		for _, v := range t.Bound {
			nb[v.Name] = true
			st.noteSort(v.Sort)
		}
		st.collect(t.Args[0], nb)
		for _, alt := range t.Pats {
			for _, p := range alt {
				st.collect(p, nb)
			}
		}
	default:
		for _, a := range t.Args {
			st.collect(a, bound)
		}
	}
}

func (st *symtab) decls() string {
	var b strings.Builder
	var names []string
	for n := range st.sorts {
		names = append(names, n)
	}
	sort.Strings(names)
	for _, n := range names {
		fmt.Fprintf(&b, "(declare-sort %s 0)\n", n)
	}
	names = names[:0]
	for n := range st.funcs {
		names = append(names, n)
	}
	sort.Strings(names)
	for _, n := range names {
		f := st.funcs[n]
		b.WriteString("(declare-fun " + smtName(n) + " (")
		for i, a := range f.Args {
			if i > 0 {
				b.WriteString(" ")
			}
			b.WriteString(a.Sort.String())
		}
		b.WriteString(") " + f.Sort.String() + ")\n")
	}
	names = names[:0]
	for n := range st.vars {
		names = append(names, n)
	}
	sort.Strings(names)
	for _, n := range names {
		fmt.Fprintf(&b, "(declare-fun %s () %s)\n", smtName(n), st.vars[n])
	}
	return b.String()
}

// funcNames returns the uninterpreted function names occurring in t.
func funcNames(t *Term, into map[string]bool) {
	if t.Op == "app" {
		into[t.Name] = true
	}
	for _, a := range t.Args {
		funcNames(a, into)
	}
	for _, alt := range t.Pats {
		for _, p := range alt {
			funcNames(p, into)
		}
	}
}
