package govc

import (
	"regexp"
	"fmt"
	"go/ast"
	"go/token"
	"go/types"
	"strings"

	"golang.org/x/tools/go/packages"
)

// ---------------------------------------------------------------------------------------------
// Loop identification
// ---------------------------------------------------------------------------------------------

// loopOrdinal: k-th loop (source order, including loops inside function literals) of its FuncDecl.
func (e *Exec) loopOrdinal(decl *ast.FuncDecl, n ast.Node) int {
	m, ok := e.loopIDs[decl]
	if !ok {
		m = map[ast.Node]int{}
		k := 0
		ast.Inspect(decl, func(x ast.Node) bool {
			switch x.(type) {
			case *ast.ForStmt, *ast.RangeStmt:
				k++
				m[x] = k
			}
			return true
		})
		e.loopIDs[decl] = m
	}
	return m[n]
}

// enclosingDecl finds the FuncDecl lexically containing pos in package pk.
func (p *Program) enclosingDecl(pk *packages.Package, pos token.Pos) *ast.FuncDecl {
	for _, f := range pk.Syntax {
		if pos < f.Pos() || pos > f.End() {
			continue
		}
		for _, d := range f.Decls {
			if fd, ok := d.(*ast.FuncDecl); ok && fd.Pos() <= pos && pos <= fd.End() {
				return fd
			}
		}
	}
	return nil
}

func (e *Exec) loopSpec(n ast.Node) (*LoopSpec, string) {
	pk := e.curPkg()
	decl := e.prog.enclosingDecl(pk, n.Pos())
	if decl == nil {
		return nil, "?"
	}
	k := e.loopOrdinal(decl, n)
	if decl == e.decl {
		key := fmt.Sprint(k)
		if e.contract != nil {
			return e.contract.Loops[key], key
		}
		return nil, key
	}
	obj, _ := pk.TypesInfo.Defs[decl.Name].(*types.Func)
	key := fmt.Sprintf("%s.%d", funcKey(obj), k)
	if e.contract != nil {
		if ls, ok := e.contract.Loops[key]; ok {
			return ls, key
		}
	}
	if c := e.prog.contractFor(obj); c != nil {
		return c.Loops[fmt.Sprint(k)], key
	}
	return nil, key
}

// loopEnv builds the spec environment for invariants of loop n.
func (e *Exec) loopEnv(st *State, n ast.Node, inner token.Pos) *SpecEnv {
	env := e.funcEnv(st, e.entry)
	base := env.goName
	frames := append([]*frame{}, e.frames...)
	lookupAt := func(pk *packages.Package, pos token.Pos, name string, s *State) (Value, bool) {
		sc := pk.Types.Scope().Innermost(pos)
		if sc == nil {
			return nil, false
		}
		_, obj := sc.LookupParent(name, pos)
		if obj == nil {
			return nil, false
		}
		if _, isVar := obj.(*types.Var); !isVar {
			return nil, false
		}
		if obj.Parent() == pk.Types.Scope() {
			return nil, false
		}
		c, ok := e.cells[obj]
		if !ok {
			return nil, false
		}
		v, ok := s.store[c]
		return v, ok
	}
	pk := e.curPkg()
	hidden := e.curHidden
	outerHidden := e.outerHidden
	env.goName = func(name string, s *State) (Value, bool) {
		if name == "$idxouter" {
			// hidden range index of the nearest enclosing range loop that has one
			if outerHidden != nil {
				v, ok := s.store[outerHidden]
				return v, ok
			}
			return nil, false
		}
		if name == "$idx" {
			if hidden != nil {
				v, ok := s.store[hidden]
				return v, ok
			}
			return nil, false
		}
		depth := 0
		for strings.HasPrefix(name, "$") && len(name) > 1 {
			name = name[1:]
			depth++
		}
		if depth == 0 {
			if v, ok := lookupAt(pk, inner, name, s); ok {
				return v, true
			}
			// the contract's names for unnamed results mean something only at return: inside a loop
			// such a name can only be a (renamed) local
			if len(frames) == 1 && e.contract != nil && e.lit == nil {
				sig := frames[0].sig
				for i, rn := range e.resultNames(sig, e.contract) {
					if rn == name && i < sig.Results().Len() && sig.Results().At(i).Name() == "" {
						return nil, false
					}
				}
			}
			return base(name, s)
		}
		// walk up inline frames
		ix := len(frames) - 1
		for ix >= 0 && depth > 0 {
			fr := frames[ix]
			if fr.callPos != 0 {
				depth--
				if depth == 0 {
					if v, ok := lookupAt(fr.callPkg, fr.callPos, name, s); ok {
						return v, true
					}
					return base(name, s)
				}
			}
			ix--
		}
		return base(name, s)
	}
	// a name nothing else resolves (not a variable, ghost, let or package member): a local was renamed.
	// resolveLoopNames has chosen, per loop, which variable in scope takes its place; if that reading is
	// wrong the invariant fails (an invariant is never assumed before it has been proved).
	env.lastResort = func(name string, s *State) (Value, bool) {
		obj := e.loopAlias[n][name]
		if obj == nil {
			return nil, false
		}
		c, ok := e.cells[obj]
		if !ok {
			return nil, false
		}
		v, ok := s.store[c]
		return v, ok
	}
	return env
}

// ---------------------------------------------------------------------------------------------
// Generic loop cut
// ---------------------------------------------------------------------------------------------

type loopDesc struct {
	node  ast.Node
	label string
	inner token.Pos                   // a position inside the body (for name lookup)
	cond  func(st *State) *Term       // nil: true
	body  func(st *State) []Outcome   // body incl. per-iteration bindings
	post  func(st *State) []*State    // post statement
	auto  func(st *State) *Term       // automatic invariant (assumed, holds by construction)
	extra []*Cell                     // hidden cells to havoc
	foot  []ast.Node                  // AST nodes to scan for the footprint
}

func (e *Exec) loopCut(st *State, d loopDesc) []Outcome {
	savedHidden, savedOuter := e.curHidden, e.outerHidden
	e.outerHidden = savedHidden
	if len(d.extra) > 0 {
		e.curHidden = d.extra[0]
	} else {
		e.curHidden = nil
	}
	defer func() { e.curHidden, e.outerHidden = savedHidden, savedOuter }()
	spec, key := e.loopSpec(d.node)
	var invs []*Clause
	if spec != nil {
		invs = spec.Invariants
	}
	e.resolveLoopNames(st, d, key, invs)
	// 1. invariants hold on entry
	env := e.loopEnv(st, d.node, d.inner)
	env.pre = st
	for _, inv := range invs {
		env.what = fmt.Sprintf("%s loop %s invariant @%s", e.funcName(), key, inv.Label)
		e.oblige(st, "inv-init", "loop"+key+":"+inv.Label, env.evalBool(inv.Expr), d.node, inv.Tags)
	}
	// 2. havoc
	preState := st.clone()
	e.havocLoop(st, d, spec)
	env = e.loopEnv(st, d.node, d.inner)
	env.pre = preState
	for _, inv := range invs {
		env.what = fmt.Sprintf("%s loop %s invariant @%s", e.funcName(), key, inv.Label)
		st.assume(env.evalBool(inv.Expr))
	}
	if d.auto != nil {
		st.assume(d.auto(st))
	}
	if st.dead {
		return nil
	}
	// 3. guard
	var c *Term = tTrue
	if d.cond != nil {
		c = d.cond(st)
	}
	tB, fB := e.fork(st, c)
	var outs []Outcome
	if fB != nil {
		outs = append(outs, Outcome{st: fB, ctl: ctlNext})
	}
	if tB == nil {
		return outs
	}
	var m0 *Term
	if spec != nil && spec.Decreases != nil {
		env := e.loopEnv(tB, d.node, d.inner)
		env.what = e.funcName() + " loop " + key + " decreases"
		m0 = env.evalInt(spec.Decreases.Expr)
		e.oblige(tB, "decreases", "loop"+key+":bounded", mkGe(m0, tZero), d.node, spec.Decreases.Tags)
	}
	for _, o := range d.body(tB) {
		switch {
		case o.ctl == ctlNext || (o.ctl == ctlContinue && (o.label == "" || o.label == d.label)):
			ends := []*State{o.st}
			if d.post != nil {
				ends = d.post(o.st)
			}
			for _, s := range ends {
				e.cover(s, "loop"+key, d.node)
				env := e.loopEnv(s, d.node, d.inner)
				env.pre = preState
				for _, inv := range invs {
					env.what = fmt.Sprintf("%s loop %s invariant @%s", e.funcName(), key, inv.Label)
					e.oblige(s, "inv-keep", "loop"+key+":"+inv.Label, env.evalBool(inv.Expr), d.node, inv.Tags)
				}
				if m0 != nil {
					env.what = e.funcName() + " loop " + key + " decreases"
					m1 := env.evalInt(spec.Decreases.Expr)
					e.oblige(s, "decreases", "loop"+key+":smaller", mkLt(m1, m0), d.node, spec.Decreases.Tags)
				}
			}
		case o.ctl == ctlBreak && (o.label == "" || o.label == d.label):
			outs = append(outs, Outcome{st: o.st, ctl: ctlNext})
		case o.ctl == ctlDead:
		default:
			outs = append(outs, o)
		}
	}
	return outs
}

// ---------------------------------------------------------------------------------------------
// for
// ---------------------------------------------------------------------------------------------

func (e *Exec) execFor(st *State, x *ast.ForStmt, label string) []Outcome {
	states := []*State{st}
	if x.Init != nil {
		states = nil
		for _, o := range e.execStmt(st, x.Init) {
			if o.ctl != ctlNext {
				panic(unsupported("control flow in for-init"))
			}
			states = append(states, o.st)
		}
	}
	var outs []Outcome
	for _, s := range states {
		d := loopDesc{node: x, label: label, inner: x.Body.Lbrace + 1, foot: []ast.Node{x.Body}}
		if x.Cond != nil {
			d.cond = func(st *State) *Term { return asTerm(e.eval(st, x.Cond)) }
			d.foot = append(d.foot, x.Cond)
		}
		d.body = func(st *State) []Outcome { return e.execBlock(st, x.Body.List) }
		if x.Post != nil {
			d.foot = append(d.foot, x.Post)
			d.post = func(st *State) []*State {
				var r []*State
				for _, o := range e.execStmt(st, x.Post) {
					if o.ctl == ctlNext {
						r = append(r, o.st)
					}
				}
				return r
			}
		}
		d.auto = e.autoForInvariant(s, x)
		outs = append(outs, e.loopCut(s, d)...)
	}
	return outs
}

// autoForInvariant: for `for i := A; …; i++` where the body does not assign i: i >= A.
func (e *Exec) autoForInvariant(st *State, x *ast.ForStmt) func(*State) *Term {
	as, ok := x.Init.(*ast.AssignStmt)
	if !ok || as.Tok != token.DEFINE || len(as.Lhs) != 1 {
		return nil
	}
	id, ok := as.Lhs[0].(*ast.Ident)
	if !ok {
		return nil
	}
	inc, ok := x.Post.(*ast.IncDecStmt)
	if !ok || inc.Tok != token.INC {
		return nil
	}
	pid, ok := inc.X.(*ast.Ident)
	if !ok || pid.Name != id.Name {
		return nil
	}
	obj := e.info().Defs[id]
	if obj == nil || reprOf(obj.Type()) != rInt {
		return nil
	}
	assigned := false
	ast.Inspect(x.Body, func(n ast.Node) bool {
		switch a := n.(type) {
		case *ast.AssignStmt:
			for _, l := range a.Lhs {
				if li, ok := l.(*ast.Ident); ok && e.info().Uses[li] == obj {
					assigned = true
				}
			}
		case *ast.IncDecStmt:
			if li, ok := a.X.(*ast.Ident); ok && e.info().Uses[li] == obj {
				assigned = true
			}
		case *ast.UnaryExpr:
			if a.Op == token.AND {
				if li, ok := a.X.(*ast.Ident); ok && e.info().Uses[li] == obj {
					assigned = true
				}
			}
		}
		return true
	})
	if assigned {
		return nil
	}
	cell := e.cellFor(obj)
	init := asTerm(st.store[cell])
	// upper bound from a condition `i < B` / `i <= B` whose B is a local the loop does not assign
	// (or its len, or a constant): i <= max(A, B) resp. max(A, B+1) holds by induction
	var bound ast.Expr
	strict := true
	if be, ok := x.Cond.(*ast.BinaryExpr); ok && (be.Op == token.LSS || be.Op == token.LEQ) {
		if li, ok := ast.Unparen(be.X).(*ast.Ident); ok && e.info().Uses[li] == obj {
			bound, strict = be.Y, be.Op == token.LSS
		}
	}
	boundOK := bound != nil
	if boundOK {
		ast.Inspect(bound, func(n ast.Node) bool {
			if n == nil {
				return false
			}
			switch b := n.(type) {
			case *ast.Ident:
				o := e.info().Uses[b]
				switch oo := o.(type) {
				case *types.Var:
					if oo.Parent() == oo.Pkg().Scope() || e.assignedIn(x, oo) {
						boundOK = false
					}
				case *types.Const, *types.Builtin, *types.TypeName, nil:
				default:
					boundOK = false
				}
			case *ast.BasicLit, *ast.ParenExpr, *ast.BinaryExpr:
			case *ast.CallExpr:
				// only len(x) / conversions T(x)
				if id, ok := b.Fun.(*ast.Ident); !ok || !(id.Name == "len" || e.info().Types[b.Fun].IsType()) {
					boundOK = false
				}
			default:
				boundOK = false
			}
			return boundOK
		})
	}
	// fill loop `for i := A; i < N; i++ { X[i] = C }` (X a slice variable and C a constant or variable the
	// loop does not assign): after any number of iterations X holds C on [A, i) and its entry content
	// elsewhere. The loop needs no written invariant (e.g. when a refactoring moved it into a helper).
	fill := e.fillSummary(st, x.Body, obj, func(v *types.Var) bool { return e.assignedIn(x, v) }, init)
	return func(s *State) *Term {
		cur := asTerm(s.store[cell])
		inv := mkGe(cur, init)
		if fill != nil {
			inv = mkAnd(inv, fill(s, cur))
		}
		if boundOK {
			saved := s.quiet
			s.quiet++
			bv := func() (t *Term) {
				defer func() {
					if r := recover(); r != nil {
						t = nil
					}
				}()
				return asTerm(e.eval(s, bound))
			}()
			s.quiet = saved
			if bv != nil {
				if !strict {
					bv = mkAdd(bv, tOne)
				}
				inv = mkAnd(inv, mkLe(cur, mkMax(init, bv)))
			}
		}
		return inv
	}
}

// fillSummary recognises a loop body that is the single statement `X[i] = C` (i the loop's counter, X a slice
// variable or the slice a pointer variable points to, neither assigned by the loop, C a constant or a variable the
// loop does not assign) and returns its exact summary: after any number of iterations X holds C on [from, i) and
// its entry content elsewhere. Such a loop needs no written invariant, in whichever form it is spelled
// (`for i := A; i < N; i++`, `for i := range X`) and wherever a refactoring moved it.
func (e *Exec) fillSummary(st *State, body *ast.BlockStmt, idx types.Object, assigned func(*types.Var) bool, from *Term) func(s *State, cur *Term) *Term {
	if body == nil || len(body.List) != 1 {
		return nil
	}
	as, ok := body.List[0].(*ast.AssignStmt)
	if !ok || as.Tok != token.ASSIGN || len(as.Lhs) != 1 || len(as.Rhs) != 1 {
		return nil
	}
	ix, ok := as.Lhs[0].(*ast.IndexExpr)
	if !ok {
		return nil
	}
	iid, ok := ast.Unparen(ix.Index).(*ast.Ident)
	if !ok || e.info().Uses[iid] != idx {
		return nil
	}
	localVar := func(x ast.Expr) *types.Var {
		id, ok := ast.Unparen(x).(*ast.Ident)
		if !ok {
			return nil
		}
		v, ok := e.info().Uses[id].(*types.Var)
		if !ok || v.IsField() || v.Parent() == v.Pkg().Scope() || assigned(v) {
			return nil
		}
		return v
	}
	base := ast.Unparen(ix.X)
	var sliceT types.Type
	if v := localVar(base); v != nil {
		sliceT = v.Type()
	} else if st, ok := base.(*ast.StarExpr); ok && localVar(st.X) != nil {
		sliceT = e.info().TypeOf(base)
	} else {
		return nil
	}
	sl, ok := sliceT.Underlying().(*types.Slice)
	if !ok || reprOf(sl.Elem()) != rInt {
		return nil
	}
	constRHS := false
	switch r := ast.Unparen(as.Rhs[0]).(type) {
	case *ast.BasicLit:
		constRHS = true
	case *ast.Ident:
		if rv, ok := e.info().Uses[r].(*types.Var); ok && !rv.IsField() && rv.Parent() != rv.Pkg().Scope() && !assigned(rv) && rv != idx {
			constRHS = true
		}
		if _, ok := e.info().Uses[r].(*types.Const); ok {
			constRHS = true
		}
	}
	if !constRHS {
		return nil
	}
	var sv SliceVal
	func() {
		defer func() {
			if r := recover(); r != nil {
				ok = false
			}
		}()
		tmp := st.clone()
		tmp.quiet++
		sv, ok = toSlice(e.eval(tmp, base))
	}()
	if !ok {
		return nil
	}
	key := memFamily(sl.Elem())
	preInner := mkSelect(st.memMap(key, SInt), sv.Arr)
	rhs := as.Rhs[0]
	return func(s *State, cur *Term) *Term {
		saved := s.quiet
		s.quiet++
		cv := asTerm(e.convertAssign(s, e.eval(s, rhs), sl.Elem()))
		s.quiet = saved
		k := mkVar("k!fill", SInt)
		now := mkSelect(s.memMap(key, SInt), sv.Arr)
		in := mkAnd(mkLe(mkAdd(sv.Off, from), k), mkLt(k, mkAdd(sv.Off, cur)))
		return mkForall([]*Term{k}, mkEq(mkSelect(now, k), mkIte(in, cv, mkSelect(preInner, k))), mkSelect(now, k))
	}
}

// assignedIn: the loop (body or post statement) assigns v or takes its address.
func (e *Exec) assignedIn(x *ast.ForStmt, v *types.Var) bool {
	if e.assignedInNode(x.Body, v) {
		return true
	}
	return x.Post != nil && e.assignedInNode(x.Post, v)
}

// assignedInNode: some statement under n assigns v or takes its address.
func (e *Exec) assignedInNode(n ast.Node, v *types.Var) bool {
	found := false
	check := func(n ast.Node) bool {
		switch a := n.(type) {
		case *ast.AssignStmt:
			for _, l := range a.Lhs {
				if li, ok := l.(*ast.Ident); ok && (e.info().Uses[li] == v || e.info().Defs[li] == v) {
					found = true
				}
			}
		case *ast.IncDecStmt:
			if li, ok := a.X.(*ast.Ident); ok && e.info().Uses[li] == v {
				found = true
			}
		case *ast.UnaryExpr:
			if a.Op == token.AND {
				if li, ok := a.X.(*ast.Ident); ok && e.info().Uses[li] == v {
					found = true
				}
			}
		case *ast.RangeStmt:
			for _, kx := range []ast.Expr{a.Key, a.Value} {
				if li, ok := kx.(*ast.Ident); ok && a.Tok == token.ASSIGN && e.info().Uses[li] == v {
					found = true
				}
			}
		}
		return true
	}
	ast.Inspect(n, check)
	return found
}

// ---------------------------------------------------------------------------------------------
// range
// ---------------------------------------------------------------------------------------------

func (e *Exec) execRange(st *State, x *ast.RangeStmt, label string) []Outcome {
	info := e.info()
	xt := info.TypeOf(x.X)
	bindVar := func(s *State, id ast.Expr, v Value) {
		if id == nil {
			return
		}
		ident, ok := id.(*ast.Ident)
		if ok && ident.Name == "_" {
			return
		}
		if x.Tok == token.DEFINE && ok {
			obj := info.Defs[ident]
			s.store[e.cellFor(obj)] = e.convertAssign(s, v, obj.Type())
			return
		}
		loc := e.lvalue(s, id)
		e.storeLoc(s, loc, e.convertAssign(s, v, loc.ltype()))
	}
	// range over function
	if sig, ok := xt.Underlying().(*types.Signature); ok {
		return e.execRangeFunc(st, x, sig, label)
	}
	switch u := xt.Underlying().(type) {
	case *types.Basic:
		if u.Info()&types.IsInteger != 0 {
			n := asTerm(e.eval(st, x.X))
			idx := e.newCell("$i", xt)
			st.store[idx] = Scalar{tZero, xt}
			d := loopDesc{node: x, label: label, inner: x.Body.Lbrace + 1, foot: []ast.Node{x.Body}, extra: []*Cell{idx}}
			d.cond = func(s *State) *Term { return mkLt(asTerm(s.store[idx]), n) }
			d.body = func(s *State) []Outcome {
				bindVar(s, x.Key, s.store[idx])
				return e.execBlock(s, x.Body.List)
			}
			d.post = func(s *State) []*State {
				s.store[idx] = Scalar{mkAdd(asTerm(s.store[idx]), tOne), xt}
				return []*State{s}
			}
			d.auto = func(s *State) *Term {
				i := asTerm(s.store[idx])
				return mkAnd(mkLe(tZero, i), mkOr(mkLe(i, n), mkLt(n, tZero)))
			}
			return e.loopCut(st, d)
		}
		if u.Info()&types.IsString != 0 {
			return e.execRangeString(st, x, label, bindVar)
		}
	case *types.Slice, *types.Array, *types.Pointer:
		var seq Value
		if p, isPtr := u.(*types.Pointer); isPtr {
			if _, isArr := p.Elem().Underlying().(*types.Array); !isArr {
				panic(unsupported("range over pointer"))
			}
			seq = e.loadLoc(st, e.derefLoc(st, e.eval(st, x.X), x.X))
		} else {
			seq = e.eval(st, x.X)
		}
		sv, _ := toSlice(seq)
		intT := types.Typ[types.Int]
		spec, _ := e.loopSpec(x)
		// exact unrolling for constant-length sequences without a loop contract
		if av, isArr := seq.(ArrayVal); isArr && av.N <= 16 && (spec == nil || len(spec.Invariants) == 0 || spec.Unroll) {
			return e.unrollRange(st, x, label, sv, av.N, bindVar)
		}
		if sv.Len.isInt() && sv.Len.Val.IsInt64() && sv.Len.Val.Int64() <= 16 && (spec == nil || len(spec.Invariants) == 0 || spec.Unroll) {
			return e.unrollRange(st, x, label, sv, sv.Len.Val.Int64(), bindVar)
		}
		idx := e.newCell("$i", intT)
		st.store[idx] = Scalar{tZero, intT}
		d := loopDesc{node: x, label: label, inner: x.Body.Lbrace + 1, foot: []ast.Node{x.Body}, extra: []*Cell{idx}}
		d.cond = func(s *State) *Term { return mkLt(asTerm(s.store[idx]), sv.Len) }
		d.body = func(s *State) []Outcome {
			i := asTerm(s.store[idx])
			bindVar(s, x.Key, Scalar{i, intT})
			if x.Value != nil {
				bindVar(s, x.Value, e.copyValue(s, e.loadLoc(s, sliceElemLoc(sv, i))))
			}
			return e.execBlock(s, x.Body.List)
		}
		d.post = func(s *State) []*State {
			s.store[idx] = Scalar{mkAdd(asTerm(s.store[idx]), tOne), intT}
			return []*State{s}
		}
		var rfill func(s *State, cur *Term) *Term
		if kid, ok := x.Key.(*ast.Ident); ok && x.Value == nil && x.Tok == token.DEFINE && kid.Name != "_" {
			if kobj := info.Defs[kid]; kobj != nil {
				rfill = e.fillSummary(st, x.Body, kobj, func(v *types.Var) bool { return e.assignedInNode(x.Body, v) }, tZero)
			}
		}
		d.auto = func(s *State) *Term {
			i := asTerm(s.store[idx])
			inv := mkAnd(mkLe(tZero, i), mkLe(i, sv.Len))
			if rfill != nil {
				inv = mkAnd(inv, rfill(s, i))
			}
			return inv
		}
		// the hidden index is visible to invariants through the key variable's name (bound in body);
		// expose it as "$idx" too
		outs := e.withHiddenIndex(x, idx, func() []Outcome { return e.loopCut(st, d) })
		return outs
	}
	panic(unsupported("range over " + xt.String()))
}

// withHiddenIndex makes the hidden range index available to invariants under the key's name.
func (e *Exec) withHiddenIndex(x *ast.RangeStmt, idx *Cell, run func() []Outcome) []Outcome {
	if id, ok := x.Key.(*ast.Ident); ok && id.Name != "_" && x.Tok == token.DEFINE {
		if obj := e.info().Defs[id]; obj != nil {
			// alias: the key variable shares the hidden cell while invariants are evaluated
			prev, had := e.cells[obj]
			e.cells[obj] = idx
			defer func() {
				if had {
					e.cells[obj] = prev
				}
			}()
		}
	}
	return run()
}

func (e *Exec) unrollRange(st *State, x *ast.RangeStmt, label string, sv SliceVal, n int64,
	bindVar func(*State, ast.Expr, Value)) []Outcome {
	intT := types.Typ[types.Int]
	cur := []*State{st}
	var outs []Outcome
	for k := int64(0); k < n && len(cur) > 0; k++ {
		var next []*State
		for _, s := range cur {
			bindVar(s, x.Key, Scalar{mkInt64(k), intT})
			if x.Value != nil {
				bindVar(s, x.Value, e.copyValue(s, e.loadLoc(s, sliceElemLoc(sv, mkInt64(k)))))
			}
			for _, o := range e.execBlock(s, x.Body.List) {
				switch {
				case o.ctl == ctlNext || (o.ctl == ctlContinue && (o.label == "" || o.label == label)):
					next = append(next, o.st)
				case o.ctl == ctlBreak && (o.label == "" || o.label == label):
					outs = append(outs, Outcome{st: o.st, ctl: ctlNext})
				case o.ctl == ctlDead:
				default:
					outs = append(outs, o)
				}
			}
		}
		cur = next
	}
	for _, s := range cur {
		outs = append(outs, Outcome{st: s, ctl: ctlNext})
	}
	return outs
}

// range over a string: index i and rune c. Modelled at byte level for ASCII: if c < 0x80 then
// c == s[i] and the next index is i+1; otherwise s[i] >= 0x80 and the next index is in (i, len].
func (e *Exec) execRangeString(st *State, x *ast.RangeStmt, label string, bindVar func(*State, ast.Expr, Value)) []Outcome {
	s := asTerm(e.eval(st, x.X))
	intT := types.Typ[types.Int]
	runeT := types.Typ[types.Rune]
	idx := e.newCell("$i", intT)
	st.store[idx] = Scalar{tZero, intT}
	wcell := e.newCell("$w", intT)
	st.store[wcell] = Scalar{tOne, intT}
	d := loopDesc{node: x, label: label, inner: x.Body.Lbrace + 1, foot: []ast.Node{x.Body}, extra: []*Cell{idx, wcell}}
	d.cond = func(s2 *State) *Term { return mkLt(asTerm(s2.store[idx]), strLen(s)) }
	d.body = func(s2 *State) []Outcome {
		i := asTerm(s2.store[idx])
		c := e.nm.fresh("rune", SInt)
		w := e.nm.fresh("rw", SInt)
		b := strByte(s, i)
		s2.assume(mkAnd(mkLe(tZero, c), mkLe(c, mkInt64(0x10FFFF))))
		s2.assume(mkAnd(mkLe(tZero, b), mkLe(b, mkInt64(255))))
		s2.assume(mkIte(mkLt(b, mkInt64(0x80)), mkAnd(mkEq(c, b), mkEq(w, tOne)),
			mkAnd(mkGe(c, mkInt64(0x80)), mkLe(tOne, w), mkLe(w, mkInt64(4)), mkLe(mkAdd(i, w), strLen(s)))))
		// the bytes skipped by a multi-byte rune are UTF-8 continuation bytes (>= 0x80)
		kv := mkVar("x!utf8", SInt)
		s2.assume(mkForall([]*Term{kv}, mkImplies(mkAnd(mkLt(i, kv), mkLt(kv, mkAdd(i, w))), mkGe(strByte(s, kv), mkInt64(0x80))), strByte(s, kv)))
		s2.store[wcell] = Scalar{w, intT}
		bindVar(s2, x.Key, Scalar{i, intT})
		if x.Value != nil {
			bindVar(s2, x.Value, Scalar{c, runeT})
		}
		return e.execBlock(s2, x.Body.List)
	}
	d.post = func(s2 *State) []*State {
		s2.store[idx] = Scalar{mkAdd(asTerm(s2.store[idx]), asTerm(s2.store[wcell])), intT}
		return []*State{s2}
	}
	d.auto = func(s2 *State) *Term {
		i := asTerm(s2.store[idx])
		return mkAnd(mkLe(tZero, i), mkLe(i, strLen(s)))
	}
	e.assumptions["range over string is modelled per byte for ASCII runes; multi-byte runes advance by 1..4 bytes over continuation bytes >= 0x80 (UTF-8 decoding not modelled further)"] = true
	return e.withHiddenIndex(x, idx, func() []Outcome { return e.loopCut(st, d) })
}

// ---------------------------------------------------------------------------------------------
// range over an in-module iterator function (mechanical inlining of the producer)
// ---------------------------------------------------------------------------------------------

func (e *Exec) execRangeFunc(st *State, x *ast.RangeStmt, sig *types.Signature, label string) []Outcome {
	// Evaluate the producer expression: must be a call to a module function returning a closure.
	var iters []stVal
	call, ok := ast.Unparen(x.X).(*ast.CallExpr)
	if !ok {
		panic(unsupported("range over function value that is not a call"))
	}
	fobj := e.calleeFunc(call)
	if fobj == nil || !inModule(fobj.Pkg()) {
		panic(unsupported("range over function from outside the module"))
	}
	decl := e.prog.decls[fobj.Origin()]
	if decl == nil {
		panic(unsupported("iterator producer without source"))
	}
	iters = e.inlineCall(st, call, &inlineInfo{fn: fobj, decl: decl, pkg: e.prog.declPkg[fobj.Origin()]})
	var outs []Outcome
	ownerIx := len(e.frames) - 1
	for _, it := range iters {
		clo, ok := it.v.(ClosureVal)
		if !ok {
			panic(unsupported("iterator producer did not return a function literal"))
		}
		// call closure with yield bound to the range body
		yb := &yieldBinding{rng: x, frameIx: ownerIx}
		res := e.inlineClosureYield(it.st, clo, yb, x)
		for _, r := range res {
			switch {
			case r.ctl == ctlNext:
				outs = append(outs, r)
			case r.ctl == ctlBreak && (r.label == "" || r.label == label):
				outs = append(outs, Outcome{st: r.st, ctl: ctlNext})
			default:
				outs = append(outs, r)
			}
		}
	}
	return outs
}

// yieldCond recognises `if !yield(v) { return }` inside an inlined producer and executes the
// consumer's loop body in its place.
func (e *Exec) yieldCond(st *State, x *ast.IfStmt) []Outcome {
	fr := e.top()
	if fr.yield == nil || x.Else != nil || x.Init != nil {
		return nil
	}
	un, ok := ast.Unparen(x.Cond).(*ast.UnaryExpr)
	if !ok || un.Op != token.NOT {
		return nil
	}
	call, ok := ast.Unparen(un.X).(*ast.CallExpr)
	if !ok {
		return nil
	}
	id, ok := ast.Unparen(call.Fun).(*ast.Ident)
	if !ok || e.info().Uses[id] != fr.yield.obj {
		return nil
	}
	if len(x.Body.List) != 1 {
		return nil
	}
	if r, ok := x.Body.List[0].(*ast.ReturnStmt); !ok || len(r.Results) != 0 {
		return nil
	}
	var args []Value
	for _, a := range call.Args {
		args = append(args, e.eval(st, a))
	}
	rng := fr.yield.rng
	owner := e.frames[fr.yield.frameIx]
	// execute the consumer body in the owner's frame context
	saved := e.frames
	e.frames = append(append([]*frame{}, e.frames...), owner)
	defer func() { e.frames = saved }()
	info := owner.pkg.TypesInfo
	bind := func(id ast.Expr, v Value) {
		if id == nil {
			return
		}
		ident, ok := id.(*ast.Ident)
		if ok && ident.Name == "_" {
			return
		}
		if rng.Tok == token.DEFINE && ok {
			obj := info.Defs[ident]
			st.store[e.cellFor(obj)] = v
			return
		}
		loc := e.lvalue(st, id)
		e.storeLoc(st, loc, v)
	}
	if len(args) > 0 {
		bind(rng.Key, args[0])
	}
	if len(args) > 1 {
		bind(rng.Value, args[1])
	}
	var outs []Outcome
	for _, o := range e.execBlock(st, rng.Body.List) {
		switch {
		case o.ctl == ctlNext || (o.ctl == ctlContinue && o.label == ""):
			// yield returned true: continue after the if
			outs = append(outs, Outcome{st: o.st, ctl: ctlNext})
		case o.ctl == ctlBreak && o.label == "":
			// yield returned false: the producer returns
			outs = append(outs, Outcome{st: o.st, ctl: ctlReturn, frame: fr.id})
		default:
			outs = append(outs, o)
		}
	}
	return outs
}

// loopCounter: the single variable a for statement declares in its init clause, or the key of a range.
func loopCounter(n ast.Node) *ast.Ident {
	switch x := n.(type) {
	case *ast.ForStmt:
		if as, ok := x.Init.(*ast.AssignStmt); ok && as.Tok == token.DEFINE && len(as.Lhs) == 1 {
			if id, ok := as.Lhs[0].(*ast.Ident); ok {
				return id
			}
		}
	case *ast.RangeStmt:
		if x.Tok == token.DEFINE {
			if id, ok := x.Key.(*ast.Ident); ok && id.Name != "_" {
				return id
			}
		}
	}
	return nil
}

var unknownIdentRe = regexp.MustCompile(`unknown identifier \$?([A-Za-z_][A-Za-z0-9_]*)`)

// resolveLoopNames: when an invariant names a variable the code no longer has (a renamed local), pick
// the variable in scope that takes its place: one the contract does not mention anywhere (so it is new
// to the contract) and under which the invariant is well-typed. The loop counter is tried first.
func (e *Exec) resolveLoopNames(st *State, d loopDesc, key string, invs []*Clause) {
	if len(invs) == 0 || e.contract == nil {
		return
	}
	if e.loopAlias[d.node] == nil {
		e.loopAlias[d.node] = map[string]types.Object{}
	}
	pk := e.curPkg()
	mentioned := func(name string) bool {
		re := regexp.MustCompile(`(^|[^A-Za-z0-9_$.])` + regexp.QuoteMeta(name) + `([^A-Za-z0-9_]|$)`)
		for _, c := range e.contract.allClauses() {
			if re.MatchString(c.Src) {
				return true
			}
		}
		return false
	}
	candidates := func() []types.Object {
		var out []types.Object
		seen := map[types.Object]bool{}
		if ctr := loopCounter(d.node); ctr != nil {
			if o := pk.TypesInfo.Defs[ctr]; o != nil {
				out = append(out, o)
				seen[o] = true
			}
		}
		for sc := pk.Types.Scope().Innermost(d.inner); sc != nil && sc != pk.Types.Scope(); sc = sc.Parent() {
			for _, nm := range sc.Names() {
				o := sc.Lookup(nm)
				v, isVar := o.(*types.Var)
				if !isVar || seen[o] || o.Pos() > d.inner {
					continue
				}
				if _, bound := e.cells[v]; !bound {
					continue
				}
				seen[o] = true
				out = append(out, o)
			}
		}
		return out
	}
	try := func(inv *Clause) (missing string) {
		defer func() {
			if r := recover(); r != nil {
				if ce, ok := r.(ContractError); ok {
					if m := unknownIdentRe.FindStringSubmatch(ce.msg); m != nil {
						missing = m[1]
						if strings.Contains(ce.msg, "unknown identifier $"+m[1]) {
							missing = "$" + m[1]
						}
						return
					}
					missing = "!" // evaluates with an error of another kind
					return
				}
				panic(r)
			}
		}()
		trial := st.clone()
		env := e.loopEnv(trial, d.node, d.inner)
		env.pre = trial
		env.what = "trial"
		env.evalBool(inv.Expr)
		return ""
	}
	for _, inv := range invs {
		for round := 0; round < 4; round++ {
			miss := try(inv)
			if miss == "" || miss == "!" {
				break
			}
			chosen := false
			for _, c := range candidates() {
				taken := false
				for _, o := range e.loopAlias[d.node] {
					if o == c {
						taken = true
					}
				}
				if taken || (mentioned(c.Name()) && c.Name() != miss) {
					continue
				}
				e.loopAlias[d.node][miss] = c
				if r := try(inv); r != "!" && r != miss {
					chosen = true
					e.warnings = append(e.warnings, "loop "+key+": the invariant names `"+miss+"`, which the code no longer has: read as `"+c.Name()+"`")
					break
				}
				delete(e.loopAlias[d.node], miss)
			}
			if !chosen {
				break
			}
		}
	}
}
