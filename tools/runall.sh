#!/bin/bash
# usage: runall.sh [tier]  - runs every claimed check (4 in parallel), prints one line per property
T=${1:-quick}
cd /verif
PROPS=$(python3 -c "import json;print(' '.join(c['property_id'] for c in json.load(open('/verif/MANIFEST.json'))['checks']))")
mkdir -p /tmp/runall; rm -f /tmp/runall/*
echo $PROPS | tr ' ' '\n' | xargs -P 4 -I{} bash -c "./bin/govc check --property {} --tier $T > /tmp/runall/{}.out 2>&1; echo exit=\$? >> /tmp/runall/{}.out"
for P in $PROPS; do echo "$P: $(grep -E '^property=|^CHECK|exit=' /tmp/runall/$P.out | tr '\n' ' ')"; grep -E "^VIOLATION|^KNOWN" /tmp/runall/$P.out | head -5 | cut -c1-200; done
