#!/bin/bash
# usage: seed_recheck_all.sh [P] [seed-id...]  - re-runs the check of the targeted property against every stored seeded change,
# each in its own scratch worktree of /repo and scratch copy of /verif under /tmp/rc (P at a time, default 3),
# and lists the seeds the targeted check no longer reports. Nothing is written to /repo or /verif.
P=${1:-3}; shift
IDS=${@:-$(ls /verif/seeded)}
export GOFLAGS=-mod=mod GOPROXY=off GOSUMDB=off GOTOOLCHAIN=local
rm -rf /tmp/rc; mkdir -p /tmp/rc; git -C /repo worktree prune
one() {
  ID=$1; PROP=$(python3 -c "import json;print(json.load(open('/verif/seeded/$ID/meta.json'))['property'])")
  W=/tmp/rc/$ID; mkdir -p $W
  git -C /repo worktree add --detach $W/repo HEAD >/dev/null 2>&1 || { echo "$ID: worktree failed"; return; }
  ( cd $W/repo && git apply /verif/seeded/$ID/patch.diff ) || { echo "$ID: PATCH-DOES-NOT-APPLY"; git -C /repo worktree remove --force $W/repo; return; }
  for f in $(cd /repo && git ls-files '*contracts_verif.go'); do cp /repo/$f $W/repo/$f; done
  mkdir -p $W/verif; ( cd /verif && tar cf - --exclude=.git --exclude=seeded --exclude=harmless --exclude=replays --exclude=engine . ) | tar xf - -C $W/verif
  ( cd $W/verif && ./bin/govc check --repo $W/repo --verif $W/verif --property $PROP > $W/out.txt 2>&1 )
  if grep -qE "^VIOLATION|^CHECK-BROKEN" $W/out.txt; then
    echo "$ID $PROP detected: $(grep -E '^VIOLATION|^CHECK-BROKEN' $W/out.txt | head -1 | sed 's/.*replays\/[^/]*\///' | cut -c1-120)"
  else
    echo "$ID $PROP NOT-DETECTED: $(tail -1 $W/out.txt | cut -c1-160)"
  fi
  git -C /repo worktree remove --force $W/repo; rm -rf $W
}
export -f one
echo $IDS | tr ' ' '\n' | xargs -P $P -I{} bash -c 'one {}'
git -C /repo worktree prune; rm -rf /tmp/rc
