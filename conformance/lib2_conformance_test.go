package iprange

// Conformance tests for the ASSUMED library contracts added for sfoField (bufio) and collectFiles
// (slices.SortFunc, cmp.Compare) in /verif/contracts/lib/io.spec and slices.spec.

import (
	"bufio"
	"bytes"
	"cmp"
	"math/rand"
	"slices"
	"testing"
)

// bufio.Reader.Reset(r) + ReadBytes(delim): the bytes of r's content from its position at Reset up to and
// including the first delim, in a slice of its own; the next ReadBytes continues after it.
func TestConformanceBufioReadBytes(t *testing.T) {
	rng := rand.New(rand.NewSource(7))
	for it := 0; it < 3000; it++ {
		n := rng.Intn(9000)
		c := make([]byte, n)
		for i := range c {
			c[i] = byte(rng.Intn(4)) // many zeros
		}
		start := 0
		if n > 0 {
			start = rng.Intn(n)
		}
		src := bytes.NewReader(c)
		src.Seek(int64(start), 0)
		var br bufio.Reader
		br.Reset(src)
		at := start
		for k := 0; k < 3; k++ {
			line, err := br.ReadBytes(0)
			if err != nil {
				break
			}
			if len(line) < 1 || line[len(line)-1] != 0 || bytes.IndexByte(line[:len(line)-1], 0) >= 0 {
				t.Fatalf("line shape: %v", line)
			}
			if !bytes.Equal(line, c[at:at+len(line)]) {
				t.Fatalf("content at %d differs", at)
			}
			line[0] ^= 0xff // own slice: the source must not change
			if c[at] == line[0] {
				t.Fatalf("ReadBytes returned a view of the source")
			}
			at += len(line)
		}
	}
}

type cfItem struct {
	key, tag int
}

// slices.SortFunc: afterwards ordered by the comparator; an input that is already ordered (ties included)
// is left exactly as it is - what collectFiles relies on for files that share a first sector.
func TestConformanceSortFuncOrderedInputUnchanged(t *testing.T) {
	rng := rand.New(rand.NewSource(11))
	by := func(a, b cfItem) int { return cmp.Compare(a.key, b.key) }
	for it := 0; it < 4000; it++ {
		n := rng.Intn(400)
		s := make([]cfItem, n)
		k := 0
		for i := range s {
			if rng.Intn(3) > 0 {
				k += rng.Intn(3) // ties are common
			}
			s[i] = cfItem{k, i}
		}
		ordered := slices.Clone(s)
		slices.SortFunc(s, by)
		if !slices.Equal(s, ordered) {
			t.Fatalf("ordered input of %d elements was permuted", n)
		}
		rng.Shuffle(len(s), func(i, j int) { s[i], s[j] = s[j], s[i] })
		slices.SortFunc(s, by)
		for i := 1; i < len(s); i++ {
			if by(s[i-1], s[i]) > 0 {
				t.Fatalf("not ordered after SortFunc")
			}
		}
	}
	for _, p := range [][2]int{{1, 2}, {2, 1}, {3, 3}, {-5, 4}} {
		want := 0
		if p[0] < p[1] {
			want = -1
		} else if p[0] > p[1] {
			want = 1
		}
		if cmp.Compare(p[0], p[1]) != want {
			t.Fatalf("cmp.Compare%v", p)
		}
	}
}
