package govc

import (
	"fmt"
	"go/ast"
	"go/constant"
	"go/token"
	"go/types"
	"math/big"
)

// eval evaluates a Go expression in state st, emitting safety obligations. It never forks.
func (e *Exec) eval(st *State, x ast.Expr) Value {
	info := e.info()
	if tv, ok := info.Types[x]; ok && tv.Value != nil {
		t := tv.Type
		if b, isB := t.(*types.Basic); isB && b.Info()&types.IsUntyped != 0 {
			t = types.Default(t)
		}
		if tv.Value.Kind() == constant.Float {
			panic(unsupported("floating point constant"))
		}
		return e.constValue(tv.Value, t)
	}
	switch n := x.(type) {
	case *ast.ParenExpr:
		return e.eval(st, n.X)
	case *ast.Ident:
		return e.evalIdent(st, n)
	case *ast.BasicLit:
		panic(unsupported("literal " + n.Value))
	case *ast.SelectorExpr:
		return e.evalSelector(st, n)
	case *ast.IndexExpr:
		bt := info.TypeOf(n.X)
		if _, isSig := bt.Underlying().(*types.Signature); isSig {
			return e.eval(st, n.X) // generic instantiation
		}
		if reprOf(bt) == rString {
			s := asTerm(e.eval(st, n.X))
			i := asTerm(e.eval(st, n.Index))
			e.safety(st, "bounds", mkAnd(mkLe(tZero, i), mkLt(i, strLen(s))), n)
			b := strByte(s, i)
			st.assume(mkAnd(mkLe(tZero, b), mkLe(b, mkInt64(255))))
			return Scalar{b, types.Typ[types.Uint8]}
		}
		if _, isMap := bt.Underlying().(*types.Map); isMap {
			panic(unsupported("map index"))
		}
		return e.loadLoc(st, e.lvalue(st, n))
	case *ast.SliceExpr:
		return e.evalSliceExpr(st, n)
	case *ast.StarExpr:
		return e.loadLoc(st, e.lvalue(st, n))
	case *ast.UnaryExpr:
		return e.evalUnary(st, n)
	case *ast.BinaryExpr:
		return e.evalBinary(st, n)
	case *ast.CallExpr:
		return e.evalCall(st, n)
	case *ast.CompositeLit:
		return e.evalCompositeLit(st, n)
	case *ast.FuncLit:
		return ClosureVal{Lit: n, Typ: info.TypeOf(n)}
	case *ast.TypeAssertExpr:
		v := e.eval(st, n.X)
		ref := asTerm(v)
		tt := info.TypeOf(n.Type)
		if tv, ok := info.Types[x]; ok {
			if tup, isTup := tv.Type.(*types.Tuple); isTup {
				// comma-ok form
				okT := e.typeTestTerm(ref, tt)
				okv := e.nm.fresh("ok", SBool)
				st.assume(mkEq(okv, okT))
				return TupleVal{Vals: []Value{e.assertedOrZero(st, ref, tt, okv), Scalar{okv, types.Typ[types.Bool]}}, Typ: tup}
			}
		}
		e.safety(st, "typeassert", e.typeTestTerm(ref, tt), n)
		return e.assertedValue(st, ref, tt)
	case *ast.KeyValueExpr:
		panic(unsupported("key-value outside literal"))
	}
	panic(unsupported(fmt.Sprintf("expression %T", x)))
}

func (e *Exec) typeTestTerm(ref *Term, tt types.Type) *Term {
	if _, isIface := tt.Underlying().(*types.Interface); isIface {
		return mkAnd(mkNe(ref, tZero), e.implementsTerm(ref, tt))
	}
	return mkAnd(mkNe(ref, tZero), mkEq(dynType(ref), typeIdTerm(tt)))
}

func (e *Exec) assertedOrZero(st *State, ref *Term, tt types.Type, ok *Term) Value {
	v := e.assertedValue(st, ref, tt)
	if s, isS := v.(Scalar); isS {
		var z *Term
		switch s.T.Sort.Kind {
		case KInt:
			z = tZero
		case KBool:
			z = tFalse
		default:
			z = e.strLit("")
		}
		return Scalar{mkIte(ok, s.T, z), tt}
	}
	return v
}

func (e *Exec) evalIdent(st *State, n *ast.Ident) Value {
	info := e.info()
	obj := info.Uses[n]
	if obj == nil {
		obj = info.Defs[n]
	}
	switch o := obj.(type) {
	case *types.Nil:
		return Scalar{tZero, tyNil}
	case *types.Const:
		return e.constValue(o.Val(), o.Type())
	case *types.Var:
		if c, ok := e.cells[o]; ok {
			if v, ok := st.store[c]; ok {
				return v
			}
		}
		if o.Pkg() != nil && o.Parent() == o.Pkg().Scope() {
			if v, ok := e.globalValue(st, o); ok {
				return v
			}
			panic(unsupported("package-level variable " + o.Name() + " of type " + o.Type().String()))
		}
		if e.lazyCaptures {
			c := e.cellFor(o)
			st.store[c] = e.symbolicValue(st, o.Type(), o.Name())
			return st.store[c]
		}
		panic(unsupported("unbound variable " + o.Name()))
	case *types.Func:
		return Scalar{mkApp("func!"+o.FullName(), SInt), o.Type()}
	case *types.Builtin:
		panic(unsupported("builtin as value"))
	}
	if n.Name == "true" {
		return Scalar{tTrue, tyBool}
	}
	if n.Name == "false" {
		return Scalar{tFalse, tyBool}
	}
	panic(unsupported("identifier " + n.Name))
}

func (e *Exec) evalSelector(st *State, n *ast.SelectorExpr) Value {
	info := e.info()
	if sel := info.Selections[n]; sel != nil {
		switch sel.Kind() {
		case types.FieldVal:
			// exported field of a library struct (e.g. (*net.TCPAddr).IP): an uninterpreted function
			// of the object's identity (library objects are treated as immutable values)
			if rt := sel.Recv(); len(sel.Index()) == 1 {
				bt := rt
				if pt, ok := rt.Underlying().(*types.Pointer); ok {
					bt = pt.Elem()
				}
				if reprOf(bt) == rOpaque {
					ref := asTerm(e.eval(st, n.X))
					if isPointerType(rt) {
						e.safety(st, "nil", mkNe(ref, tZero), n)
					}
					f := bt.Underlying().(*types.Struct).Field(sel.Index()[0])
					key := "ofield!" + typeKey(bt) + "." + f.Name()
					v := buildValue(f.Type(), "", func(path string, srt *Sort, typ types.Type) *Term {
						return mkApp(key+path, srt, ref)
					})
					e.assumeWellTypedOpaque(st, v)
					e.assumptions["exported fields of library structs ("+typeKey(bt)+"."+f.Name()+") are functions of the object's identity (not mutated while in use)"] = true
					return v
				}
			}
			// by-value struct not addressable (e.g. call result)? try location first
			if e.addressable(n.X) || isPointerType(info.TypeOf(n.X)) {
				return e.loadLoc(st, e.lvalue(st, n))
			}
			v := e.eval(st, n.X)
			return e.selectPath(st, v, sel)
		case types.MethodVal:
			panic(unsupported("method value"))
		}
		panic(unsupported("selection kind"))
	}
	// qualified identifier
	obj := info.Uses[n.Sel]
	switch o := obj.(type) {
	case *types.Const:
		return e.constValue(o.Val(), o.Type())
	case *types.Var:
		if v, ok := e.globalValue(st, o); ok {
			return v
		}
		panic(unsupported("package-level variable " + o.Pkg().Name() + "." + o.Name()))
	case *types.Func:
		return Scalar{mkApp("func!"+o.FullName(), SInt), o.Type()}
	}
	panic(unsupported("selector " + n.Sel.Name))
}

func isPointerType(t types.Type) bool {
	_, ok := t.Underlying().(*types.Pointer)
	return ok
}

// selectPath follows a field selection (possibly through embedded fields) on a by-value struct.
func (e *Exec) selectPath(st *State, v Value, sel *types.Selection) Value {
	t := sel.Recv()
	for _, ix := range sel.Index() {
		if p, ok := t.Underlying().(*types.Pointer); ok {
			loc := e.derefLoc(st, v, nil)
			v = e.loadLoc(st, loc)
			t = p.Elem()
		}
		f := t.Underlying().(*types.Struct).Field(ix)
		sv, ok := v.(StructVal)
		if !ok {
			panic(unsupported("field of opaque struct " + t.String()))
		}
		v = sv.Fields[f.Name()]
		t = f.Type()
	}
	return v
}

func (e *Exec) addressable(x ast.Expr) bool {
	switch n := ast.Unparen(x).(type) {
	case *ast.Ident:
		obj := e.info().Uses[n]
		if obj == nil {
			obj = e.info().Defs[n]
		}
		if v, ok := obj.(*types.Var); ok {
			if _, bound := e.cells[v]; bound {
				return true
			}
			return v.Pkg() != nil && v.Parent() == v.Pkg().Scope() && reprOf(v.Type()) == rArray
		}
		return false
	case *ast.SelectorExpr:
		if sel := e.info().Selections[n]; sel != nil && sel.Kind() == types.FieldVal {
			return isPointerType(e.info().TypeOf(n.X)) || e.addressable(n.X) || sel.Indirect()
		}
		return false
	case *ast.IndexExpr:
		t := e.info().TypeOf(n.X).Underlying()
		switch t.(type) {
		case *types.Slice:
			return true
		case *types.Array:
			return true
		case *types.Pointer:
			return true
		}
		return false
	case *ast.StarExpr:
		return true
	}
	return false
}

// lvalue resolves an addressable expression to a location (emitting nil / bounds obligations).
func (e *Exec) lvalue(st *State, x ast.Expr) Loc {
	info := e.info()
	switch n := ast.Unparen(x).(type) {
	case *ast.Ident:
		obj := info.Uses[n]
		if obj == nil {
			obj = info.Defs[n]
		}
		v, ok := obj.(*types.Var)
		if !ok {
			panic(unsupported("assignment to non-variable " + n.Name))
		}
		if v.Pkg() != nil && v.Parent() == v.Pkg().Scope() {
			if _, isCell := e.cells[v]; !isCell {
				if reprOf(v.Type()) == rArray {
					// package-level array: a constant-initialised memory object
					av, ok := e.globalArray(st, v)
					if ok {
						c := e.newCell("global!"+v.Name(), v.Type())
						st.store[c] = av
						return &LocalLoc{Cell: c, Typ: v.Type()}
					}
				}
				panic(unsupported("write to / address of package-level variable " + n.Name))
			}
		}
		return &LocalLoc{Cell: e.cellFor(v), Typ: v.Type()}
	case *ast.SelectorExpr:
		sel := info.Selections[n]
		if sel == nil || sel.Kind() != types.FieldVal {
			panic(unsupported("lvalue selector"))
		}
		var loc Loc
		t := sel.Recv()
		if isPointerType(t) {
			loc = e.derefLoc(st, e.eval(st, n.X), n.X)
			t = t.Underlying().(*types.Pointer).Elem()
		} else {
			loc = e.lvalue(st, n.X)
		}
		idx := sel.Index()
		for k, ix := range idx {
			if p, ok := t.Underlying().(*types.Pointer); ok {
				// embedded pointer
				loc = e.derefLoc(st, e.loadLoc(st, loc), n.X)
				t = p.Elem()
			}
			f := t.Underlying().(*types.Struct).Field(ix)
			if reprOf(t) != rStruct {
				panic(unsupported("field of opaque struct " + t.String()))
			}
			loc = fieldLoc(loc, f.Name(), f.Type())
			t = f.Type()
			_ = k
		}
		return loc
	case *ast.IndexExpr:
		bt := info.TypeOf(n.X)
		var base Value
		switch u := bt.Underlying().(type) {
		case *types.Slice:
			base = e.eval(st, n.X)
		case *types.Array:
			if e.addressable(n.X) {
				base = e.loadLoc(st, e.lvalue(st, n.X))
			} else {
				base = e.eval(st, n.X)
			}
		case *types.Pointer:
			if _, isArr := u.Elem().Underlying().(*types.Array); isArr {
				base = e.loadLoc(st, e.derefLoc(st, e.eval(st, n.X), n.X))
			} else {
				panic(unsupported("index of pointer"))
			}
		default:
			panic(unsupported("index of " + bt.String()))
		}
		i := asTerm(e.eval(st, n.Index))
		var ln *Term
		switch b := base.(type) {
		case SliceVal:
			ln = b.Len
		case ArrayVal:
			ln = mkInt64(b.N)
		}
		e.safety(st, "bounds", mkAnd(mkLe(tZero, i), mkLt(i, ln)), n)
		return sliceElemLoc(base, i)
	case *ast.StarExpr:
		return e.derefLoc(st, e.eval(st, n.X), n.X)
	case *ast.CompositeLit:
		// &T{...}: handled in evalUnary
	}
	panic(unsupported(fmt.Sprintf("lvalue %T", x)))
}

// derefLoc turns a pointer value into the location it points to (obligation: non-nil).
func (e *Exec) derefLoc(st *State, p Value, at ast.Node) Loc {
	switch v := p.(type) {
	case PtrVal:
		if hl, ok := v.Loc.(*HeapLoc); ok && hl.Path == "" && at != nil {
			e.safety(st, "nil", mkNe(hl.Ref, tZero), at)
		}
		if ml, ok := v.Loc.(*MemLoc); ok && at != nil {
			if _, isInt := interiorElem(v.Typ); isInt && !(ml.Arr.Op == "var") {
				e.safety(st, "nil", mkNe(ml.Arr, tZero), at)
			}
		}
		return v.Loc
	case Scalar:
		pt, ok := v.Typ.Underlying().(*types.Pointer)
		if !ok {
			panic(unsupported("dereference of non-pointer " + v.Typ.String()))
		}
		if at != nil {
			e.safety(st, "nil", mkNe(v.T, tZero), at)
		}
		return &HeapLoc{Fam: heapFamily(pt.Elem()), Ref: v.T, Typ: pt.Elem()}
	}
	panic(unsupported(fmt.Sprintf("dereference of %T", p)))
}

func (e *Exec) evalSliceExpr(st *State, n *ast.SliceExpr) Value {
	info := e.info()
	bt := info.TypeOf(n.X)
	if reprOf(bt) == rString {
		s := asTerm(e.eval(st, n.X))
		lo, hi := tZero, strLen(s)
		if n.Low != nil {
			lo = asTerm(e.eval(st, n.Low))
		}
		if n.High != nil {
			hi = asTerm(e.eval(st, n.High))
		}
		e.safety(st, "bounds", mkAnd(mkLe(tZero, lo), mkLe(lo, hi), mkLe(hi, strLen(s))), n)
		return Scalar{e.substr(st, s, lo, hi), bt}
	}
	var base Value
	switch u := bt.Underlying().(type) {
	case *types.Slice:
		base = e.eval(st, n.X)
	case *types.Array:
		if e.addressable(n.X) {
			base = e.loadLoc(st, e.lvalue(st, n.X))
		} else {
			base = e.eval(st, n.X)
		}
	case *types.Pointer:
		if _, isArr := u.Elem().Underlying().(*types.Array); !isArr {
			panic(unsupported("slice of pointer"))
		}
		base = e.loadLoc(st, e.derefLoc(st, e.eval(st, n.X), n.X))
	default:
		panic(unsupported("slice of " + bt.String()))
	}
	sv, ok := toSlice(base)
	if !ok {
		panic(unsupported("slice expression base"))
	}
	rt := info.TypeOf(n)
	lo, hi, mx := tZero, sv.Len, sv.Cap
	if n.Low != nil {
		lo = asTerm(e.eval(st, n.Low))
	}
	if n.High != nil {
		hi = asTerm(e.eval(st, n.High))
	}
	if n.Max != nil {
		mx = asTerm(e.eval(st, n.Max))
	}
	e.safety(st, "bounds", mkAnd(mkLe(tZero, lo), mkLe(lo, hi), mkLe(hi, mx), mkLe(mx, sv.Cap)), n)
	return SliceVal{Arr: sv.Arr, Off: mkAdd(sv.Off, lo), Len: mkSub(hi, lo), Cap: mkSub(mx, lo), Typ: rt}
}

func (e *Exec) evalUnary(st *State, n *ast.UnaryExpr) Value {
	info := e.info()
	switch n.Op {
	case token.AND:
		if cl, ok := ast.Unparen(n.X).(*ast.CompositeLit); ok {
			v := e.evalCompositeLit(st, cl)
			t := info.TypeOf(cl)
			if reprOf(t) == rOpaque {
				return Scalar{asTerm(v), info.TypeOf(n)}
			}
			ref := e.freshRef(st, "new")
			loc := &HeapLoc{Fam: heapFamily(t), Ref: ref, Typ: t}
			e.storeLoc(st, loc, v)
			st.assume(mkEq(dynType(ref), typeIdTerm(info.TypeOf(n))))
			e.ghostInit(st, t, Scalar{ref, info.TypeOf(n)})
			e.assumeTypeInv(st, Scalar{ref, info.TypeOf(n)})
			return Scalar{ref, info.TypeOf(n)}
		}
		xt := info.TypeOf(n.X)
		if reprOf(xt) == rOpaque {
			// address of an opaque library struct: identity is its value id
			return Scalar{asTerm(e.eval(st, n.X)), info.TypeOf(n)}
		}
		loc := e.lvalue(st, n.X)
		if hl, ok := loc.(*HeapLoc); ok && hl.Path == "" {
			return Scalar{hl.Ref, info.TypeOf(n)}
		}
		return PtrVal{Loc: loc, Typ: info.TypeOf(n)}
	case token.NOT:
		return Scalar{mkNot(asTerm(e.eval(st, n.X))), info.TypeOf(n)}
	case token.SUB:
		v := e.eval(st, n.X)
		return e.arith(st, token.SUB, Scalar{tZero, v.vtype()}, v, info.TypeOf(n), n)
	case token.ADD:
		return e.eval(st, n.X)
	case token.XOR:
		v := asTerm(e.eval(st, n.X))
		t := info.TypeOf(n)
		lo, hi, ok := intRange(t)
		if !ok {
			panic(unsupported("bitwise not on untyped"))
		}
		if lo.Sign() == 0 {
			return Scalar{mkSub(mkBig(hi), v), t} // unsigned: ^x = max - x
		}
		return Scalar{mkSub(mkInt64(-1), v), t} // signed: ^x = -1 - x
	}
	panic(unsupported("unary operator " + n.Op.String()))
}

func (e *Exec) evalBinary(st *State, n *ast.BinaryExpr) Value {
	info := e.info()
	rt := info.TypeOf(n)
	switch n.Op {
	case token.LAND, token.LOR:
		a := asTerm(e.eval(st, n.X))
		// evaluate right operand under the guard a (resp. !a)
		g := a
		if n.Op == token.LOR {
			g = mkNot(a)
		}
		b := e.evalGuarded(st, g, n.Y)
		if n.Op == token.LAND {
			return Scalar{mkAnd(a, b), rt}
		}
		return Scalar{mkOr(a, b), rt}
	case token.EQL, token.NEQ:
		a, b := e.eval(st, n.X), e.eval(st, n.Y)
		eq := e.equalValues(st, a, b, n)
		if n.Op == token.NEQ {
			eq = mkNot(eq)
		}
		return Scalar{eq, rt}
	case token.LSS, token.LEQ, token.GTR, token.GEQ:
		a, b := e.eval(st, n.X), e.eval(st, n.Y)
		if reprOf(a.vtype()) == rString {
			panic(unsupported("string ordering"))
		}
		op := map[token.Token]string{token.LSS: "<", token.LEQ: "<=", token.GTR: ">", token.GEQ: ">="}[n.Op]
		return Scalar{mkCmp(op, asTerm(a), asTerm(b)), rt}
	case token.ADD:
		if reprOf(rt) == rString {
			a, b := e.eval(st, n.X), e.eval(st, n.Y)
			return Scalar{e.concat(st, asTerm(a), asTerm(b)), rt}
		}
	}
	a, b := e.eval(st, n.X), e.eval(st, n.Y)
	return e.arith(st, n.Op, a, b, rt, n)
}

// evalGuarded evaluates x with the path condition temporarily extended by g; the obligations
// emitted carry the guard, assumptions added are weakened by it.
func (e *Exec) evalGuarded(st *State, g *Term, x ast.Expr) *Term {
	if g.isTrue() {
		return asTerm(e.eval(st, x))
	}
	tmp := st.clone()
	tmp.assume(g)
	n0 := len(tmp.pc)
	v := asTerm(e.eval(tmp, x))
	// carry back assumptions (guarded) and allocation/ghost effects are not expected here
	for _, h := range tmp.pc[n0:] {
		st.assume(mkImplies(g, h))
	}
	return v
}

func (e *Exec) equalValues(st *State, a, b Value, n ast.Node) *Term {
	if isNilVal(b) {
		a, b = b, a
	}
	if isNilVal(a) {
		switch y := b.(type) {
		case SliceVal:
			return mkEq(y.Arr, tZero)
		case PtrVal:
			if hl, ok := y.Loc.(*HeapLoc); ok && hl.Path == "" {
				return mkEq(hl.Ref, tZero)
			}
			if ml, ok := y.Loc.(*MemLoc); ok {
				if _, isInt := interiorElem(y.Typ); isInt {
					return mkEq(ml.Arr, tZero)
				}
			}
			return tFalse
		case Scalar:
			return mkEq(y.T, tZero)
		case ClosureVal:
			return tFalse
		}
		panic(unsupported(fmt.Sprintf("nil comparison with %T", b)))
	}
	if t, ok := ifaceVsConcrete(a, b); ok {
		return t
	}
	switch av := a.(type) {
	case Scalar:
		bt := asTerm(b)
		if av.T.Sort == SStr {
			return e.strEq(st, av.T, bt)
		}
		return mkEq(av.T, bt)
	case PtrVal:
		return mkEq(asTerm(a), asTerm(b))
	case StructVal:
		bv := b.(StructVal)
		var cs []*Term
		for _, f := range structFields(av.Typ) {
			if f.Name() == "_" {
				continue
			}
			cs = append(cs, e.equalValues(st, av.Fields[f.Name()], bv.Fields[f.Name()], n))
		}
		return mkAnd(cs...)
	case ArrayVal:
		return e.arraysEqual(st, av, b.(ArrayVal))
	}
	panic(unsupported(fmt.Sprintf("comparison of %T", a)))
}

// strEq: equality of strings; for a literal operand it is length + bytes.
func (e *Exec) strEq(st *State, a, b *Term) *Term {
	if lit, ok := e.litOf(b); ok {
		return e.strEqLit(a, lit)
	}
	if lit, ok := e.litOf(a); ok {
		return e.strEqLit(b, lit)
	}
	return mkEq(a, b)
}

func (e *Exec) litOf(t *Term) (string, bool) {
	if t.Op == "app" && len(t.Args) == 0 {
		s, ok := e.prog.strLits[t.Name]
		return s, ok
	}
	return "", false
}

func (e *Exec) strEqLit(a *Term, lit string) *Term {
	if al, ok := e.litOf(a); ok {
		return mkBool(al == lit)
	}
	if len(lit) > 64 {
		return mkEq(a, e.strLit(lit))
	}
	cs := []*Term{mkEq(strLen(a), mkInt64(int64(len(lit))))}
	for i := 0; i < len(lit); i++ {
		cs = append(cs, mkEq(strByte(a, mkInt64(int64(i))), mkInt64(int64(lit[i]))))
	}
	// extensionality for literals: equal content <=> equal value
	return mkAnd(cs...)
}

func (e *Exec) arraysEqual(st *State, a, b ArrayVal) *Term {
	et := a.Typ.Underlying().(*types.Array).Elem()
	if a.N > 64 {
		panic(unsupported("comparison of large arrays"))
	}
	var cs []*Term
	quiet := st.quiet
	st.quiet++
	for i := int64(0); i < a.N; i++ {
		va := e.loadLoc(st, sliceElemLoc(a, mkInt64(i)))
		vb := e.loadLoc(st, sliceElemLoc(b, mkInt64(i)))
		cs = append(cs, e.equalValues(st, va, vb, nil))
	}
	st.quiet = quiet
	_ = et
	return mkAnd(cs...)
}

func (e *Exec) concat(st *State, a, b *Term) *Term {
	if la, ok := e.litOf(a); ok {
		if lb, ok := e.litOf(b); ok {
			return e.strLit(la + lb)
		}
		if la == "" {
			return b
		}
	}
	if lb, ok := e.litOf(b); ok && lb == "" {
		return a
	}
	r := mkApp("sconcat", SStr, a, b)
	if la, ok := e.litOf(a); ok && len(la) <= 16 && st.quiet == 0 {
		for i := 0; i < len(la); i++ {
			st.assume(mkEq(strByte(r, mkInt64(int64(i))), mkInt64(int64(la[i]))))
		}
	}
	if st.quiet > 0 {
		return r
	}
	st.assume(mkEq(strLen(r), mkAdd(strLen(a), strLen(b))))
	st.assume(mkGe(strLen(a), tZero))
	st.assume(mkGe(strLen(b), tZero))
	return r
}

// arith performs integer arithmetic with overflow obligations (int mode).
func (e *Exec) arith(st *State, op token.Token, a, b Value, rt types.Type, n ast.Node) Value {
	if reprOf(rt) != rInt {
		if reprOf(rt) == rBool {
			x, y := asTerm(a), asTerm(b)
			switch op {
			case token.AND:
				return Scalar{mkAnd(x, y), rt}
			case token.OR:
				return Scalar{mkOr(x, y), rt}
			}
		}
		panic(unsupported("arithmetic on " + rt.String()))
	}
	x, y := asTerm(a), asTerm(b)
	var r *Term
	checkRange := true
	switch op {
	case token.ADD:
		r = mkAdd(x, y)
	case token.SUB:
		r = mkSub(x, y)
	case token.MUL:
		r = mkMul(x, y)
	case token.QUO:
		e.safety(st, "div0", mkNe(y, tZero), n)
		r = mkTDiv(x, y)
	case token.REM:
		e.safety(st, "div0", mkNe(y, tZero), n)
		r = mkTRem(x, y)
		checkRange = false
	case token.AND, token.OR, token.XOR, token.AND_NOT:
		r = e.bitop(st, op.String(), x, y, rt)
		checkRange = false
	case token.SHL, token.SHR:
		r = e.bitop(st, op.String(), x, y, rt)
		checkRange = op == token.SHL
	default:
		panic(unsupported("operator " + op.String()))
	}
	if checkRange {
		if e.wraps(n) {
			r = wrapTerm2(r, rt)
		} else {
			e.safety(st, "overflow", inRangeTerm(r, rt), n)
		}
	}
	return Scalar{r, rt}
}

// wraps reports whether the contract marks this node as relying on wrap-around (not used yet).
func (e *Exec) wraps(n ast.Node) bool { return e.truncOK(n) }

func wrapTerm2(r *Term, t types.Type) *Term {
	lo, hi, ok := intRange(t)
	if !ok {
		return r
	}
	span := new(big.Int).Add(new(big.Int).Sub(hi, lo), big.NewInt(1))
	return mkAdd(mkEMod(mkSub(r, mkBig(lo)), mkBig(span)), mkBig(lo))
}

// bitop: bit operations in int mode. Constant operands are folded; masks of the form 2^k-1 and
// single-bit operations are expressed arithmetically; everything else is an uninterpreted
// function with range facts.
func (e *Exec) bitop(st *State, op string, x, y *Term, rt types.Type) *Term {
	if x.isInt() && y.isInt() && x.Val.Sign() >= 0 && y.Val.Sign() >= 0 {
		r := new(big.Int)
		switch op {
		case "&":
			r.And(x.Val, y.Val)
		case "|":
			r.Or(x.Val, y.Val)
		case "^":
			r.Xor(x.Val, y.Val)
		case "&^":
			r.AndNot(x.Val, y.Val)
		case "<<":
			r.Lsh(x.Val, uint(y.Val.Uint64()))
		case ">>":
			r.Rsh(x.Val, uint(y.Val.Uint64()))
		}
		return mkBig(r)
	}
	switch op {
	case "<<":
		if y.isInt() && y.Val.IsUint64() && y.Val.Uint64() < 64 {
			return mkMul(x, mkBig(new(big.Int).Lsh(big.NewInt(1), uint(y.Val.Uint64()))))
		}
	case ">>":
		if y.isInt() && y.Val.IsUint64() && y.Val.Uint64() < 64 {
			// arithmetic shift = floor division
			return mkEDiv(x, mkBig(new(big.Int).Lsh(big.NewInt(1), uint(y.Val.Uint64()))))
		}
	case "&":
		if x.isInt() {
			x, y = y, x
		}
		if y.isInt() && y.Val.Sign() >= 0 {
			// a constant with few bits: sum of its bits of x (floor div / mod give two's-complement bits)
			if pc := popcount(y.Val); pc > 0 && pc <= 8 && new(big.Int).And(new(big.Int).Add(y.Val, big.NewInt(1)), y.Val).Sign() != 0 {
				var sum *Term = tZero
				for b := 0; b < y.Val.BitLen(); b++ {
					if y.Val.Bit(b) == 1 {
						p2 := mkBig(new(big.Int).Lsh(big.NewInt(1), uint(b)))
						sum = mkAdd(sum, mkMul(mkEMod(mkEDiv(x, p2), mkInt64(2)), p2))
					}
				}
				return sum
			}
			// mask 2^k - 1
			m := new(big.Int).Add(y.Val, big.NewInt(1))
			if new(big.Int).And(m, y.Val).Sign() == 0 {
				return mkEMod(x, mkBig(m))
			}
			// single bit 2^k (non-negative x): (x div 2^k) mod 2 * 2^k
			if y.Val.Sign() > 0 && new(big.Int).And(y.Val, new(big.Int).Sub(y.Val, big.NewInt(1))).Sign() == 0 {
				return mkMul(mkEMod(mkEDiv(x, y.Val2()), mkInt64(2)), y)
			}
		}
	}
	// x | c, x ^ c, x &^ c with a constant of few bits: exact through x & c (non-negative x)
	if (op == "|" || op == "^" || op == "&^") && st != nil {
		cx, cc := x, y
		if op != "&^" && cx.isInt() {
			cx, cc = cc, cx
		}
		if cc.isInt() && cc.Val.Sign() >= 0 && popcount(cc.Val) <= 8 && !cx.isInt() {
			and := e.bitop(st, "&", cx, cc, nil)
			switch op {
			case "|":
				return mkAdd(cx, mkSub(cc, and))
			case "^":
				return mkSub(mkAdd(cx, cc), mkMul(mkInt64(2), and))
			case "&^":
				return mkSub(cx, and)
			}
		}
	}
	name := map[string]string{"&": "bitand", "|": "bitor", "^": "bitxor", "&^": "bitandnot", "<<": "shl", ">>": "shr"}[op]
	r := mkApp(name, SInt, x, y)
	if st != nil && st.quiet == 0 {
		switch op {
		case "&":
			st.assume(mkImplies(mkAnd(mkGe(x, tZero), mkGe(y, tZero)), mkAnd(mkGe(r, tZero), mkLe(r, x), mkLe(r, y))))
		case "|", "^":
			st.assume(mkImplies(mkAnd(mkGe(x, tZero), mkGe(y, tZero)), mkGe(r, tZero)))
			if op == "|" {
				st.assume(mkImplies(mkAnd(mkGe(x, tZero), mkGe(y, tZero)), mkAnd(mkGe(r, x), mkGe(r, y), mkLe(r, mkAdd(x, y)))))
			}
		case "&^":
			st.assume(mkImplies(mkAnd(mkGe(x, tZero), mkGe(y, tZero)), mkAnd(mkGe(r, tZero), mkLe(r, x))))
		}
		if rt != nil {
			st.assume(inRangeTerm(r, rt))
		}
	}
	e.assumptions["bit operations on non-constant operands are uninterpreted functions with range facts (int mode)"] = true
	return r
}

func (t *Term) Val2() *Term { return mkBig(t.Val) }

// convertAssign adapts a value to the static type it is assigned to (interface boxing).
func (e *Exec) convertAssign(st *State, v Value, to types.Type) Value {
	if to == nil {
		return v
	}
	if _, isIface := to.Underlying().(*types.Interface); isIface {
		return e.box(st, v, to)
	}
	switch x := v.(type) {
	case Scalar:
		if x.Typ == tyNil {
			switch reprOf(to) {
			case rSlice:
				return SliceVal{tZero, tZero, tZero, tZero, to}
			case rRef:
				if et, ok := interiorElem(to); ok {
					return ptrFromTerm(tZero, et, to)
				}
				return Scalar{tZero, to}
			}
		}
		if reprOf(to) == reprOf(x.Typ) || x.Typ == nil {
			return Scalar{x.T, to}
		}
		return x
	case ArrayVal:
		return e.copyValue(st, x)
	case StructVal:
		return e.copyValue(st, x)
	}
	return v
}

// copyValue implements value semantics for arrays (fresh backing array with equal contents).
func (e *Exec) copyValue(st *State, v Value) Value {
	switch x := v.(type) {
	case ArrayVal:
		id := e.freshRef(st, "arrcopy")
		et := x.Typ.Underlying().(*types.Array).Elem()
		var ls []leaf
		leavesOf(et, "", &ls)
		fam := memFamily(et)
		for _, l := range ls {
			key := fam + l.Path
			m := st.memMap(key, l.Sort)
			st.mem[key] = mkStore(m, id, mkSelect(m, x.Arr))
		}
		return ArrayVal{Arr: id, N: x.N, Typ: x.Typ}
	case StructVal:
		hasArr := false
		for _, f := range x.Fields {
			if _, ok := f.(ArrayVal); ok {
				hasArr = true
			}
			if _, ok := f.(StructVal); ok {
				hasArr = true
			}
		}
		if !hasArr {
			return x
		}
		nf := make(map[string]Value, len(x.Fields))
		for k, f := range x.Fields {
			nf[k] = e.copyValue(st, f)
		}
		return StructVal{Fields: nf, Typ: x.Typ}
	}
	return v
}

// box converts a concrete value into an interface value (a reference with a dynamic type).
func (e *Exec) box(st *State, v Value, to types.Type) Value {
	vt := v.vtype()
	if vt != nil {
		if _, isIface := vt.Underlying().(*types.Interface); isIface {
			return Scalar{asTerm(v), to}
		}
	}
	switch x := v.(type) {
	case Scalar:
		if x.Typ == tyNil {
			return Scalar{tZero, to}
		}
		switch reprOf(x.Typ) {
		case rRef:
			if pv, ok := e.promotedIface(st, x, to); ok {
				return pv
			}
			if _, isPtr := x.Typ.Underlying().(*types.Pointer); isPtr {
				// pointer stored in interface: nil pointer gives a non-nil interface; we keep the
				// reference and record the dynamic type for non-nil references.
				st.assume(mkImplies(mkNe(x.T, tZero), mkEq(dynType(x.T), typeIdTerm(x.Typ))))
			}
			return Scalar{x.T, to}
		case rOpaque:
			st.assume(mkEq(dynType(x.T), typeIdTerm(x.Typ)))
			return Scalar{x.T, to}
		case rString:
			r := e.freshRef(st, "boxed")
			st.assume(mkEq(dynType(r), typeIdTerm(x.Typ)))
			st.assume(mkEq(mkApp("unbox!str", SStr, r), x.T))
			st.assume(mkNot(mkApp("spec!encok", SBool, r))) // strings have no fixed-size encoding
			return Scalar{r, to}
		case rInt:
			r := e.freshRef(st, "boxed")
			st.assume(mkEq(dynType(r), typeIdTerm(x.Typ)))
			st.assume(mkEq(mkApp("unbox!int", SInt, r), x.T))
			return Scalar{r, to}
		case rBool:
			r := e.freshRef(st, "boxed")
			st.assume(mkEq(dynType(r), typeIdTerm(x.Typ)))
			st.assume(mkEq(mkApp("unbox!bool", SBool, r), x.T))
			return Scalar{r, to}
		}
	case PtrVal:
		if hl, ok := x.Loc.(*HeapLoc); ok && hl.Path == "" {
			return Scalar{hl.Ref, to}
		}
		if ml, ok := x.Loc.(*MemLoc); ok && !ml.Whole && ml.Path == "" {
			if _, isInt := interiorElem(x.Typ); isInt {
				// pointer of an interior type: the interface holds its (array, index) code
				r := ptrTerm(ml)
				st.assume(mkImplies(mkNe(ml.Arr, tZero), mkEq(dynType(r), typeIdTerm(x.Typ))))
				return Scalar{r, to}
			}
		}
		// interior pointer boxed into an interface: keep it symbolic but remember the location
		r := e.freshRef(st, "boxedptr")
		st.assume(mkEq(dynType(r), typeIdTerm(x.Typ)))
		e.boxedPtrs[r.Name] = x
		// pointer to a local struct: the heap object at r mirrors the local (kept in step by storeLoc),
		// so that contracts can read it through cast(x, "T")
		if ll, ok := x.Loc.(*LocalLoc); ok && len(ll.Path) == 0 && reprOf(ll.Typ) == rStruct {
			if cur, ok := st.store[ll.Cell]; ok {
				e.localMirror[ll.Cell] = r
				e.storeLoc(st, &HeapLoc{Fam: heapFamily(ll.Typ), Ref: r, Typ: ll.Typ}, cur)
			}
		}
		return Scalar{r, to}
	case StructVal, SliceVal, ArrayVal:
		if sv, ok := v.(StructVal); ok {
			if inner, ok := forwardingWrapper(sv); ok {
				// struct{ I } without methods of its own boxed into an interface: every method it has is the
				// embedded value's, so the interface value is identified with the embedded one (the dynamic
				// type differs, which is the purpose of such wrappers: hiding optional interfaces)
				e.assumptions["a struct that only embeds one interface value and declares no methods (copier.readerOnly / writerOnly) is identified with the embedded value when stored in an interface"] = true
				return Scalar{asTerm(inner), to}
			}
		}
		r := e.freshRef(st, "boxed")
		st.assume(mkEq(dynType(r), typeIdTerm(vt)))
		e.boxedVals[r.Name] = v
		e.encodingFacts(st, r, v)
		// the boxed copy is also readable through cast(x, "T") in contracts: heap object at the fresh ref
		switch v.(type) {
		case StructVal, SliceVal:
			e.storeLoc(st, &HeapLoc{Fam: heapFamily(vt), Ref: r, Typ: vt}, v)
		}
		return Scalar{r, to}
	case ClosureVal:
		r := e.freshRef(st, "boxedfn")
		return Scalar{r, to}
	}
	panic(unsupported(fmt.Sprintf("boxing of %T into %s", v, to)))
}

// forwardingWrapper recognises a value of a named struct type whose only field is an embedded interface
// and which declares no methods; it returns the embedded value.
func forwardingWrapper(sv StructVal) (Value, bool) {
	named, ok := types.Unalias(sv.Typ).(*types.Named)
	if !ok || named.NumMethods() != 0 {
		return nil, false
	}
	stt, ok := named.Underlying().(*types.Struct)
	if !ok || stt.NumFields() != 1 || !stt.Field(0).Embedded() {
		return nil, false
	}
	if _, isIface := stt.Field(0).Type().Underlying().(*types.Interface); !isIface {
		return nil, false
	}
	inner, ok := sv.Fields[stt.Field(0).Name()]
	if !ok {
		return nil, false
	}
	if _, isScalar := inner.(Scalar); !isScalar {
		return nil, false
	}
	return inner, true
}

func (e *Exec) evalCompositeLit(st *State, n *ast.CompositeLit) Value {
	info := e.info()
	t := info.TypeOf(n)
	switch reprOf(t) {
	case rStruct:
		sv := e.zeroValue(st, t).(StructVal)
		fields := structFields(t)
		for i, el := range n.Elts {
			if kv, ok := el.(*ast.KeyValueExpr); ok {
				name := kv.Key.(*ast.Ident).Name
				ft, _ := fieldType(t, name)
				sv.Fields[name] = e.convertAssign(st, e.eval(st, kv.Value), ft)
			} else {
				sv.Fields[fields[i].Name()] = e.convertAssign(st, e.eval(st, el), fields[i].Type())
			}
		}
		return sv
	case rOpaque:
		if len(n.Elts) != 0 {
			// library struct literal with fields (e.g. sync.Pool{New: …}): identity only
			for _, el := range n.Elts {
				if kv, ok := el.(*ast.KeyValueExpr); ok {
					if _, isLit := kv.Value.(*ast.FuncLit); isLit {
						continue
					}
					e.eval(st, kv.Value)
				}
			}
		}
		return e.zeroValue(st, t)
	case rSlice, rArray:
		var et types.Type
		var n64 int64 = -1
		if a, ok := t.Underlying().(*types.Array); ok {
			et = a.Elem()
			n64 = a.Len()
		} else {
			et = t.Underlying().(*types.Slice).Elem()
		}
		// element count
		count := int64(0)
		idx := int64(0)
		type ent struct {
			i int64
			x ast.Expr
		}
		var ents []ent
		for _, el := range n.Elts {
			if kv, ok := el.(*ast.KeyValueExpr); ok {
				tv := info.Types[kv.Key]
				k, _ := constant.Int64Val(tv.Value)
				idx = k
				ents = append(ents, ent{idx, kv.Value})
			} else {
				ents = append(ents, ent{idx, el})
			}
			idx++
			if idx > count {
				count = idx
			}
		}
		if n64 < 0 {
			n64 = count
		}
		id := e.freshRef(st, "lit")
		e.fillZero(st, et, id, tZero, mkInt64(n64))
		var seq Value
		if reprOf(t) == rArray {
			seq = ArrayVal{Arr: id, N: n64, Typ: t}
		} else {
			seq = SliceVal{Arr: id, Off: tZero, Len: mkInt64(n64), Cap: mkInt64(n64), Typ: t}
		}
		for _, en := range ents {
			var v Value
			if cl, ok := en.x.(*ast.CompositeLit); ok && cl.Type == nil {
				v = e.evalCompositeLit(st, cl)
			} else {
				v = e.eval(st, en.x)
			}
			e.storeLoc(st, sliceElemLoc(seq, mkInt64(en.i)), e.convertAssign(st, v, et))
		}
		return seq
	}
	panic(unsupported("composite literal of " + t.String()))
}

// globalArray materialises a package-level array variable with a constant initialiser.
func (e *Exec) globalArray(st *State, v *types.Var) (ArrayVal, bool) {
	key := v.Pkg().Path() + "." + v.Name()
	pk := e.prog.pkgs[v.Pkg().Path()]
	if pk == nil {
		return ArrayVal{}, false
	}
	var init ast.Expr
	for _, f := range pk.Syntax {
		for _, d := range f.Decls {
			gd, ok := d.(*ast.GenDecl)
			if !ok || gd.Tok != token.VAR {
				continue
			}
			for _, sp := range gd.Specs {
				vs := sp.(*ast.ValueSpec)
				for i, nm := range vs.Names {
					if pk.TypesInfo.Defs[nm] == v && i < len(vs.Values) {
						init = vs.Values[i]
					}
				}
			}
		}
	}
	cl, ok := init.(*ast.CompositeLit)
	if !ok {
		return ArrayVal{}, false
	}
	a := v.Type().Underlying().(*types.Array)
	// constant elements only
	var vals []*big.Int
	for _, el := range cl.Elts {
		tv, ok := pk.TypesInfo.Types[el]
		if !ok || tv.Value == nil || tv.Value.Kind() != constant.Int {
			return ArrayVal{}, false
		}
		bi, _ := new(big.Int).SetString(tv.Value.ExactString(), 10)
		vals = append(vals, bi)
	}
	// The global is immutable in the code under verification (checked: writes are unsupported),
	// so it is modelled as a named constant array with known contents.
	id := mkApp("garr!"+key, SInt)
	st.assume(mkLt(id, tZero)) // distinct from every parameter-reachable or fresh array
	fam := memFamily(a.Elem())
	m := st.memMap(fam, SInt)
	for i, bv := range vals {
		st.assume(mkEq(mkSelect(mkSelect(m, id), mkInt64(int64(i))), mkBig(bv)))
	}
	e.assumptions["package-level array "+v.Pkg().Name()+"."+v.Name()+" keeps its initial contents (never written by module code)"] = true
	return ArrayVal{Arr: id, N: a.Len(), Typ: v.Type()}, true
}

func (e *Exec) entry0Alloc(st *State) *Term { return mkVar("G!"+allocGhost, SInt) }

// ghostInit applies the `ghostinit T: map[this] = expr` directives for a freshly allocated *T.
func (e *Exec) ghostInit(st *State, t types.Type, this Value) {
	named, ok := t.(*types.Named)
	if !ok || named.Obj().Pkg() == nil {
		return
	}
	inits := e.prog.specs.GhostInits[named.Obj().Pkg().Path()+"#"+named.Obj().Name()]
	for _, gi := range inits {
		g, ok := e.prog.specs.Ghosts[gi.Name]
		if !ok {
			panic(ContractError{"ghostinit: unknown ghost map " + gi.Name})
		}
		env := &SpecEnv{e: e, st: st, old: st, vars: map[string]Value{"this": this}, pkg: named.Obj().Pkg(), what: "ghostinit " + named.Obj().Name()}
		v := specTerm(env.eval(gi.Expr))
		m := st.ghostVar(gi.Name, specSort(g.Type))
		st.ghost[gi.Name] = mkStore(m, asTerm(this), v)
	}
}

// promotedIface: a pointer to a module struct converted to an interface whose methods are all
// promoted from one embedded interface-typed field behaves as that field's value.
func (e *Exec) promotedIface(st *State, x Scalar, to types.Type) (Value, bool) {
	pt, ok := x.Typ.Underlying().(*types.Pointer)
	if !ok || reprOf(pt.Elem()) != rStruct {
		return nil, false
	}
	it, ok := to.Underlying().(*types.Interface)
	if !ok || it.NumMethods() == 0 {
		return nil, false
	}
	var field *types.Var
	for i := 0; i < it.NumMethods(); i++ {
		obj, idx, _ := types.LookupFieldOrMethod(x.Typ, true, it.Method(i).Pkg(), it.Method(i).Name())
		if obj == nil || len(idx) != 2 {
			return nil, false
		}
		f := pt.Elem().Underlying().(*types.Struct).Field(idx[0])
		if !f.Embedded() {
			return nil, false
		}
		if _, isI := f.Type().Underlying().(*types.Interface); !isI {
			return nil, false
		}
		if field != nil && field != f {
			return nil, false
		}
		field = f
	}
	loc := fieldLoc(&HeapLoc{Fam: heapFamily(pt.Elem()), Ref: x.T, Typ: pt.Elem()}, field.Name(), field.Type())
	v := e.loadLoc(st, loc)
	return Scalar{asTerm(v), to}, true
}

// encodingFacts states the encoding/binary layout of a fixed-size struct value boxed into an
// interface: encok(r), enclen(r) and the field words inside encbytes(r) (big-endian view; the
// byte order of a particular Write is handled by the assumed contract of binary.Write, which
// the code base only calls with BigEndian).
func (e *Exec) encodingFacts(st *State, r *Term, v Value) {
	sv, ok := v.(StructVal)
	if !ok {
		return
	}
	var fs []fixedField
	var size int64
	if !fixedLayout(sv.Typ, "", &size, &fs) {
		st.assume(mkNot(mkApp("spec!encok", SBool, r)))
		return
	}
	st.assume(mkApp("spec!encok", SBool, r))
	st.assume(mkEq(mkApp("spec!enclen", SInt, r), mkInt64(size)))
	enc := mkApp("spec!encbytes", SArray(SInt), r)
	// group array fields
	type arrRun struct {
		base string
		off  int64
		n    int64
	}
	runs := map[string]*arrRun{}
	for _, f := range fs {
		if f.blank {
			for k := int64(0); k < f.width; k++ {
				st.assume(mkEq(mkSelect(enc, mkInt64(f.off+k)), tZero))
			}
			continue
		}
		if i := indexByte(f.path, '['); i >= 0 {
			b := f.path[:i]
			ar := runs[b]
			if ar == nil {
				ar = &arrRun{base: b, off: f.off}
				runs[b] = ar
			}
			ar.n++
			continue
		}
		t := e.leafAt(v, f.path)
		if t == nil {
			continue
		}
		val := t
		if t.Sort.Kind == KBool {
			val = mkIte(t, tOne, tZero)
		}
		st.assume(mkEq(decodeWord(enc, tZero, f.off, f.width, false, f.typ), val))
		for k := int64(0); k < f.width; k++ {
			b := mkSelect(enc, mkInt64(f.off+k))
			st.assume(mkAnd(mkLe(tZero, b), mkLe(b, mkInt64(255))))
		}
	}
	for _, ar := range runs {
		av, ok := e.valueAt(v, ar.base).(ArrayVal)
		if !ok {
			continue
		}
		et := av.Typ.Underlying().(*types.Array).Elem()
		if reprOf(et) != rInt {
			continue
		}
		inner := mkSelect(st.memMap(memFamily(et), SInt), av.Arr)
		x := mkVar("x!e", SInt)
		st.assume(mkForall([]*Term{x}, mkImplies(mkAnd(mkLe(mkInt64(ar.off), x), mkLt(x, mkInt64(ar.off+ar.n))),
			mkEq(mkSelect(enc, x), mkSelect(inner, mkSub(x, mkInt64(ar.off))))), mkSelect(enc, x)))
	}
}

func indexByte(s string, c byte) int {
	for i := 0; i < len(s); i++ {
		if s[i] == c {
			return i
		}
	}
	return -1
}

// valueAt follows a field path (".A.B") inside a struct value.
func (e *Exec) valueAt(v Value, path string) Value {
	cur := v
	for path != "" && path[0] == '.' {
		j := 1
		for j < len(path) && path[j] != '.' && path[j] != '[' {
			j++
		}
		sv, ok := cur.(StructVal)
		if !ok {
			return nil
		}
		cur = sv.Fields[path[1:j]]
		path = path[j:]
	}
	return cur
}

// assumeTypeInv assumes the declared type invariants of a *T value (non-nil case).
func (e *Exec) assumeTypeInv(st *State, v Value) {
	s, ok := v.(Scalar)
	if !ok || s.Typ == nil {
		return
	}
	pt, ok := s.Typ.Underlying().(*types.Pointer)
	if !ok {
		return
	}
	named, ok := types.Unalias(pt.Elem()).(*types.Named)
	if !ok || named.Obj().Pkg() == nil {
		return
	}
	invs := e.prog.specs.TypeInvs[named.Obj().Pkg().Path()+"#"+named.Obj().Name()]
	for _, inv := range invs {
		env := &SpecEnv{e: e, st: st, old: st, vars: map[string]Value{"this": v}, pkg: named.Obj().Pkg(), what: "typeinv " + named.Obj().Name()}
		st.assume(mkImplies(mkNe(s.T, tZero), env.evalBool(inv)))
	}
}

func popcount(v *big.Int) int {
	n := 0
	for b := 0; b < v.BitLen(); b++ {
		if v.Bit(b) == 1 {
			n++
		}
	}
	return n
}

// assumeWellTypedOpaque: representation invariants of a value read out of a library struct.
func (e *Exec) assumeWellTypedOpaque(st *State, v Value) {
	switch x := v.(type) {
	case Scalar:
		switch reprOf(x.Typ) {
		case rInt:
			st.assume(inRangeTerm(x.T, x.Typ))
		case rRef, rOpaque:
			st.assume(mkGe(x.T, tZero))
		}
	case SliceVal:
		st.assume(mkGe(x.Arr, tZero))
		st.assume(mkGe(x.Off, tZero))
		st.assume(mkGe(x.Len, tZero))
		st.assume(mkLe(x.Len, x.Cap))
		st.assume(mkImplies(mkEq(x.Arr, tZero), mkEq(x.Cap, tZero)))
		st.assume(mkLe(mkAdd(x.Off, x.Cap), mkInt64(1<<50)))
	}
}
