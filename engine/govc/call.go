package govc

import (
	"sort"
	"fmt"
	"go/ast"
	"go/parser"
	"go/token"
	"go/types"
	"strings"

	"golang.org/x/tools/go/packages"
)

type libModel struct{}

func (l *libModel) onZeroOpaque(e *Exec, st *State, t types.Type, r *Term) {
	// zero values of library structs with a ghost model
	name := ""
	switch typeKey(t) {
	case "time.Time":
		// time.Time{} is the zero instant (disables a deadline)
		if e.prog.specs.lookupFunc("timezero", "") != nil {
			st.assume(mkApp("spec!timezero", SBool, r))
		}
	case "bytes.Buffer":
		name = "blen"
	case "strings.Builder":
		name = "wn"
	}
	if name != "" {
		if e.prog.specs.lookupFunc("wsink", "") != nil {
			st.assume(mkEq(mkApp("spec!wsink", SInt, r), r)) // a buffer is its own sink
		}
		if g, ok := e.prog.specs.Ghosts[name]; ok {
			m := st.ghostVar(name, specSort(g.Type))
			st.ghost[name] = mkStore(m, r, tZero)
		}
	}
}

type inlineInfo struct {
	fn   *types.Func
	decl *ast.FuncDecl
	pkg  *packages.Package
	clo  *ClosureVal
}

// calleeFunc resolves the statically known callee of a call (nil for dynamic calls).
func (e *Exec) calleeFunc(call *ast.CallExpr) *types.Func {
	info := e.info()
	fun := ast.Unparen(call.Fun)
	if ix, ok := fun.(*ast.IndexExpr); ok {
		fun = ix.X
	}
	switch f := fun.(type) {
	case *ast.Ident:
		if fn, ok := info.Uses[f].(*types.Func); ok {
			return fn
		}
	case *ast.SelectorExpr:
		if sel := info.Selections[f]; sel != nil {
			if fn, ok := sel.Obj().(*types.Func); ok {
				return fn
			}
			return nil
		}
		if fn, ok := info.Uses[f.Sel].(*types.Func); ok {
			return fn
		}
	}
	return nil
}

// inlineTarget reports whether the call is executed by inlining (closures bound to locals and
// module functions whose contract says `inline`).
func (e *Exec) inlineTarget(st *State, call *ast.CallExpr) *inlineInfo {
	info := e.info()
	if id, ok := ast.Unparen(call.Fun).(*ast.Ident); ok {
		if v, ok := info.Uses[id].(*types.Var); ok {
			if c, ok := e.cells[v]; ok {
				if clo, ok := st.store[c].(ClosureVal); ok {
					return &inlineInfo{clo: &clo}
				}
			}
		}
	}
	if lit, ok := ast.Unparen(call.Fun).(*ast.FuncLit); ok {
		return &inlineInfo{clo: &ClosureVal{Lit: lit, Typ: info.TypeOf(lit)}}
	}
	fn := e.calleeFunc(call)
	if fn == nil || !inModule(fn.Pkg()) {
		return nil
	}
	fn = fn.Origin()
	c := e.prog.contractFor(fn)
	if c != nil && c.Inline {
		decl := e.prog.decls[fn]
		if decl == nil || decl.Body == nil {
			return nil
		}
		return &inlineInfo{fn: fn, decl: decl, pkg: e.prog.declPkg[fn]}
	}
	if c == nil && !e.prog.specs.NoEffect[libKey(fn)] {
		// a module function without a contract (a helper extracted by a refactoring): its body is
		// executed in place, so the caller's obligations are decided on the real code of both
		decl := e.prog.decls[fn]
		if decl == nil || decl.Body == nil {
			return nil
		}
		for _, fr := range e.frames {
			if fr.decl == decl {
				return nil // recursive: needs a contract
			}
		}
		if e.decl == decl {
			return nil
		}
		return &inlineInfo{fn: fn, decl: decl, pkg: e.prog.declPkg[fn]}
	}
	return nil
}

func (e *Exec) pushFrame(fr *frame) {
	e.frameSeq++
	fr.id = e.frameSeq
	if len(e.frames) > 24 {
		panic(unsupported("inline depth exceeded (recursion?)"))
	}
	e.frames = append(e.frames, fr)
}

func (e *Exec) popFrame() { e.frames = e.frames[:len(e.frames)-1] }

// inlineCall executes the callee body in place.
func (e *Exec) inlineCall(st *State, call *ast.CallExpr, inl *inlineInfo) []stVal {
	if inl.clo != nil {
		var args []Value
		for _, a := range call.Args {
			args = append(args, e.eval(st, a))
		}
		return e.inlineClosure(st, *inl.clo, args, call)
	}
	sig := inl.fn.Type().(*types.Signature)
	recv, args := e.evalCallOperands(st, call, inl.fn)
	e.calleesUsed[inl.pkg.Types.Name()+"."+funcKey(inl.fn)+" (inlined)"] = true
	fr := &frame{sig: sig, pkg: inl.pkg, callPos: call.Pos(), callPkg: e.curPkg(), fnName: funcKey(inl.fn), decl: inl.decl}
	e.pushFrame(fr)
	defer e.popFrame()
	if r := sig.Recv(); r != nil {
		st.store[e.cellFor(r)] = e.copyValue(st, recv)
	}
	e.bindParams(st, sig, args, call)
	e.bindResults(st, fr, sig)
	return e.collectInline(st, fr, inl.decl.Body, sig)
}

func (e *Exec) bindParams(st *State, sig *types.Signature, args []Value, call *ast.CallExpr) {
	np := sig.Params().Len()
	for i := 0; i < np; i++ {
		p := sig.Params().At(i)
		if sig.Variadic() && i == np-1 {
			if call != nil && call.Ellipsis.IsValid() {
				st.store[e.cellFor(p)] = args[i]
			} else {
				st.store[e.cellFor(p)] = e.packVariadic(st, p.Type(), args[i:])
			}
			break
		}
		if i < len(args) {
			st.store[e.cellFor(p)] = e.convertAssign(st, args[i], p.Type())
		}
	}
}

func (e *Exec) packVariadic(st *State, sliceT types.Type, vals []Value) Value {
	et := sliceT.Underlying().(*types.Slice).Elem()
	if len(vals) == 0 {
		return SliceVal{tZero, tZero, tZero, tZero, sliceT}
	}
	id := e.freshArray(st, "varargs", et)
	n := mkInt64(int64(len(vals)))
	sv := SliceVal{Arr: id, Off: tZero, Len: n, Cap: n, Typ: sliceT}
	for i, v := range vals {
		e.storeLoc(st, sliceElemLoc(sv, mkInt64(int64(i))), e.convertAssign(st, v, et))
	}
	return sv
}

func (e *Exec) bindResults(st *State, fr *frame, sig *types.Signature) {
	for i := 0; i < sig.Results().Len(); i++ {
		rv := sig.Results().At(i)
		var c *Cell
		if rv.Name() != "" && rv.Name() != "_" {
			c = e.cellFor(rv)
		} else {
			c = e.newCell(fmt.Sprintf("ret%d", i), rv.Type())
		}
		st.store[c] = e.zeroValue(st, rv.Type())
		fr.results = append(fr.results, c)
	}
}

func (e *Exec) collectInline(st *State, fr *frame, body *ast.BlockStmt, sig *types.Signature) []stVal {
	var out []stVal
	result := func(s *State) Value {
		switch len(fr.results) {
		case 0:
			return TupleVal{}
		case 1:
			return s.store[fr.results[0]]
		}
		var vs []Value
		for _, c := range fr.results {
			vs = append(vs, s.store[c])
		}
		return TupleVal{Vals: vs, Typ: sig.Results()}
	}
	outs := e.execBlock(st, body.List)
	for _, o := range outs {
		switch {
		case o.ctl == ctlNext:
			for _, r := range e.doReturn(o.st, nil, body) {
				if r.ctl == ctlReturn && r.frame == fr.id {
					out = append(out, stVal{r.st, result(r.st)})
				}
			}
		case o.ctl == ctlReturn && o.frame == fr.id:
			out = append(out, stVal{o.st, result(o.st)})
		case o.ctl == ctlDead:
		default:
			// control leaving the inlined function towards an outer frame (return from a range body)
			e.escaped = append(e.escaped, o)
		}
	}
	return out
}

func (e *Exec) inlineClosure(st *State, clo ClosureVal, args []Value, at ast.Node) []stVal {
	sig := clo.Typ.Underlying().(*types.Signature)
	pk := e.curPkg()
	fr := &frame{sig: sig, pkg: pk, callPos: at.Pos(), callPkg: pk, fnName: "func literal"}
	e.pushFrame(fr)
	defer e.popFrame()
	info := e.info()
	i := 0
	for _, fld := range clo.Lit.Type.Params.List {
		for _, nm := range fld.Names {
			if obj := info.Defs[nm]; obj != nil && i < len(args) {
				st.store[e.cellFor(obj)] = e.convertAssign(st, args[i], obj.Type())
			}
			i++
		}
		if len(fld.Names) == 0 {
			i++
		}
	}
	// results
	if clo.Lit.Type.Results != nil {
		k := 0
		for _, fld := range clo.Lit.Type.Results.List {
			names := fld.Names
			if len(names) == 0 {
				c := e.newCell(fmt.Sprintf("ret%d", k), sig.Results().At(k).Type())
				st.store[c] = e.zeroValue(st, c.Typ)
				fr.results = append(fr.results, c)
				k++
				continue
			}
			for _, nm := range names {
				c := e.cellFor(info.Defs[nm])
				st.store[c] = e.zeroValue(st, c.Typ)
				fr.results = append(fr.results, c)
				k++
			}
		}
	}
	return e.collectInline(st, fr, clo.Lit.Body, sig)
}

// inlineClosureYield runs an iterator closure with its yield parameter bound to a range body.
func (e *Exec) inlineClosureYield(st *State, clo ClosureVal, yb *yieldBinding, at ast.Node) []Outcome {
	sig := clo.Typ.Underlying().(*types.Signature)
	pk := e.curPkg()
	// the closure literal lives in the producer's package
	if clo.Decl != nil {
		pk = e.prog.declPkgOf(clo.Decl)
	}
	if cp := e.prog.pkgOfNode(clo.Lit); cp != nil {
		pk = cp
	}
	fr := &frame{sig: sig, pkg: pk, callPos: at.Pos(), callPkg: e.curPkg(), fnName: "iterator body", yield: yb}
	e.pushFrame(fr)
	defer e.popFrame()
	// yield parameter object
	if len(clo.Lit.Type.Params.List) != 1 || len(clo.Lit.Type.Params.List[0].Names) != 1 {
		panic(unsupported("iterator closure shape"))
	}
	yb.obj = pk.TypesInfo.Defs[clo.Lit.Type.Params.List[0].Names[0]]
	savedEsc := e.escaped
	e.escaped = nil
	var outs []Outcome
	for _, o := range e.execBlock(st, clo.Lit.Body.List) {
		switch {
		case o.ctl == ctlNext, o.ctl == ctlReturn && o.frame == fr.id:
			outs = append(outs, Outcome{st: o.st, ctl: ctlNext})
		case o.ctl == ctlDead:
		default:
			outs = append(outs, o)
		}
	}
	outs = append(outs, e.escaped...)
	e.escaped = savedEsc
	return outs
}

func (p *Program) pkgOfNode(n ast.Node) *packages.Package {
	for _, pk := range p.pkgs {
		if !strings.HasPrefix(pk.PkgPath, modulePrefix) {
			continue
		}
		for _, f := range pk.Syntax {
			if f.Pos() <= n.Pos() && n.End() <= f.End() {
				return pk
			}
		}
	}
	return nil
}

func (p *Program) declPkgOf(d *ast.FuncDecl) *packages.Package { return p.pkgOfNode(d) }

// evalCallOperands evaluates receiver and arguments of a call to a known function.
func (e *Exec) evalCallOperands(st *State, call *ast.CallExpr, fn *types.Func) (Value, []Value) {
	info := e.info()
	sig := fn.Type().(*types.Signature)
	var recv Value
	if sig.Recv() != nil {
		sel := ast.Unparen(call.Fun).(*ast.SelectorExpr)
		recv = e.evalReceiver(st, sel, sig)
	}
	var args []Value
	if len(call.Args) == 1 && sig.Params().Len() > 1 {
		if tv, ok := e.eval(st, call.Args[0]).(TupleVal); ok {
			args = tv.Vals
			return recv, args
		}
	}
	for _, a := range call.Args {
		args = append(args, e.eval(st, a))
	}
	_ = info
	return recv, args
}

// evalReceiver evaluates the receiver operand, adjusting address/dereference to the method's
// receiver type and following embedded fields.
func (e *Exec) evalReceiver(st *State, sel *ast.SelectorExpr, sig *types.Signature) Value {
	info := e.info()
	s := info.Selections[sel]
	recvT := sig.Recv().Type()
	_, wantPtr := recvT.Underlying().(*types.Pointer)
	if _, isIface := recvT.Underlying().(*types.Interface); isIface {
		wantPtr = false
	}
	xt := info.TypeOf(sel.X)
	// follow embedded path (all but the last index are fields)
	idx := s.Index()
	if len(idx) > 1 {
		// receiver is an embedded field: x.f1.f2.Method
		var v Value
		if isPointerType(xt) || e.addressable(sel.X) {
			var loc Loc
			t := xt
			if isPointerType(xt) {
				loc = e.derefLoc(st, e.eval(st, sel.X), sel.X)
				t = xt.Underlying().(*types.Pointer).Elem()
			} else {
				loc = e.lvalue(st, sel.X)
			}
			for _, ix := range idx[:len(idx)-1] {
				if p, ok := t.Underlying().(*types.Pointer); ok {
					loc = e.derefLoc(st, e.loadLoc(st, loc), sel.X)
					t = p.Elem()
				}
				f := t.Underlying().(*types.Struct).Field(ix)
				loc = fieldLoc(loc, f.Name(), f.Type())
				t = f.Type()
			}
			if wantPtr && !isPointerType(t) {
				return PtrVal{Loc: loc, Typ: types.NewPointer(t)}
			}
			v = e.loadLoc(st, loc)
			if !wantPtr && isPointerType(t) {
				if _, isIface := recvT.Underlying().(*types.Interface); !isIface {
					return e.loadLoc(st, e.derefLoc(st, v, sel.X))
				}
			}
			return v
		}
		v = e.eval(st, sel.X)
		t := xt
		for _, ix := range idx[:len(idx)-1] {
			f := t.Underlying().(*types.Struct).Field(ix)
			v = v.(StructVal).Fields[f.Name()]
			t = f.Type()
		}
		return v
	}
	if wantPtr {
		if isPointerType(xt) {
			return e.eval(st, sel.X)
		}
		if reprOf(xt) == rOpaque {
			return Scalar{asTerm(e.eval(st, sel.X)), types.NewPointer(xt)}
		}
		loc := e.lvalue(st, sel.X)
		if hl, ok := loc.(*HeapLoc); ok && hl.Path == "" {
			return Scalar{hl.Ref, types.NewPointer(xt)}
		}
		return PtrVal{Loc: loc, Typ: types.NewPointer(xt)}
	}
	v := e.eval(st, sel.X)
	if isPointerType(xt) {
		if _, isIface := recvT.Underlying().(*types.Interface); !isIface {
			if reprOf(xt.Underlying().(*types.Pointer).Elem()) == rOpaque {
				return v
			}
			return e.loadLoc(st, e.derefLoc(st, v, sel.X))
		}
	}
	return v
}

// ---------------------------------------------------------------------------------------------
// Calls
// ---------------------------------------------------------------------------------------------

func (e *Exec) evalCall(st *State, call *ast.CallExpr) Value {
	info := e.info()
	// conversion
	if tv, ok := info.Types[call.Fun]; ok && tv.IsType() {
		return e.convert(st, e.eval(st, call.Args[0]), tv.Type, call)
	}
	fun := ast.Unparen(call.Fun)
	if id, ok := fun.(*ast.Ident); ok {
		if b, ok := info.Uses[id].(*types.Builtin); ok {
			return e.evalBuiltin(st, b.Name(), call)
		}
	}
	if v, ok := st.pre[call]; ok {
		return v
	}
	if inl := e.inlineTarget(st, call); inl != nil {
		rs := e.inlineCall(st, call, inl)
		if len(rs) != 1 {
			panic(unsupported(fmt.Sprintf("inlined call forks (%d outcomes) in expression context: %s", len(rs), e.nodeText(call))))
		}
		if rs[0].st != st {
			panic(unsupported("inlined call changed state identity"))
		}
		return rs[0].v
	}
	fn := e.calleeFunc(call)
	if fn == nil {
		// dynamic call of a function value
		for _, a := range call.Args {
			e.eval(st, a)
		}
		e.assumptions["calls of function values ("+e.nodeText(call.Fun)+") have no effect on verified state"] = true
		return e.freshResults(st, info.TypeOf(call), "dyn")
	}
	recv, args := e.evalCallOperands(st, call, fn)
	return e.callFunc(st, call, fn, recv, args)
}

// callResolved is used for deferred calls whose operands were evaluated at defer time.
func (e *Exec) callResolved(st *State, call *ast.CallExpr, recv Value, args []Value, deferred bool) Value {
	fn := e.calleeFunc(call)
	if fn == nil {
		if id, ok := ast.Unparen(call.Fun).(*ast.Ident); ok {
			if _, isB := e.info().Uses[id].(*types.Builtin); isB {
				panic(unsupported("deferred builtin"))
			}
		}
		e.assumptions["calls of function values ("+e.nodeText(call.Fun)+") have no effect on verified state"] = true
		return TupleVal{}
	}
	return e.callFunc(st, call, fn, recv, args)
}

func (e *Exec) callFunc(st *State, call *ast.CallExpr, fn *types.Func, recv Value, args []Value) Value {
	info := e.info()
	rt := info.TypeOf(call)
	origin := fn.Origin()
	if !inModule(origin.Pkg()) {
		if v, ok := e.libBuiltin(st, call, fn, recv, args); ok {
			return v
		}
	}
	c := e.prog.contractFor(origin)
	name := libKey(origin)
	if c == nil {
		if inModule(origin.Pkg()) {
			if e.prog.specs.NoEffect[name] {
				e.calleesUsed[name+" (no effect, module function trusted)"] = true
				return e.freshResults(st, rt, "r")
			}
			panic(unsupported("callee without contract: " + name))
		}
		if e.prog.specs.NoEffect[name] || e.prog.specs.NoEffect[origin.Pkg().Name()+".*"] {
			e.calleesUsed[name+" (no effect)"] = true
			for _, a := range args {
				e.havocPointee(st, a)
			}
			return e.freshResults(st, rt, "r")
		}
		panic(unsupported("library callee without assumed contract: " + name))
	}
	if c.Lib {
		e.calleesUsed[name+" (assumed)"] = true
		e.copyFastPaths(st, call, name)
	} else {
		e.calleesUsed[name] = true
	}
	sig := fn.Type().(*types.Signature)
	if isig, ok := info.TypeOf(call.Fun).(*types.Signature); ok && sig.TypeParams().Len() > 0 {
		// instantiated generic function: use the instance's parameter types, keep receiver/param names
		sig = types.NewSignatureType(sig.Recv(), nil, nil, renameParams(isig.Params(), sig.Params()), isig.Results(), isig.Variadic())
	}
	if sig.Variadic() && !call.Ellipsis.IsValid() {
		np := sig.Params().Len()
		vt := sig.Params().At(np - 1).Type().Underlying().(*types.Slice).Elem()
		if _, isIface := vt.Underlying().(*types.Interface); isIface {
			// ...any arguments (formatting, logging): evaluated above for their obligations, not modelled further
			args = append(append([]Value{}, args[:min(np-1, len(args))]...), SliceVal{tZero, tZero, tZero, tZero, sig.Params().At(np - 1).Type()})
		} else if len(args) >= np-1 {
			packed := e.packVariadic(st, sig.Params().At(np-1).Type(), args[np-1:])
			args = append(append([]Value{}, args[:np-1]...), packed)
		}
	}
	res := e.applyContract(st, c, sig, recv, args, rt, call, name)
	if c.Lib {
		for _, a := range args {
			if clo, ok := a.(ClosureVal); ok {
				e.runCallback(st, clo, call)
			}
			e.havocPointee(st, a)
		}
	}
	return res
}

// runCallback models a library function that may call a function literal any number of times:
// the variables the literal assigns are havocked in the caller's state, and its body is executed
// once from an arbitrary such state so that its safety obligations are generated.
func (e *Exec) runCallback(st *State, clo ClosureVal, at ast.Node) {
	if c, _ := e.prog.closureContract(clo.Lit); c != nil {
		return // verified separately against its own contract; pure by construction of apply()
	}
	fp := &footprint{cells: map[*Cell]bool{}, reslice: map[*Cell]bool{}, visiting: map[ast.Node]bool{}}
	info := e.info()
	fp.roots = append(fp.roots, footRoot{clo.Lit.Body, info})
	e.scanAssigned(st, clo.Lit.Body, fp, info)
	e.scanWrites(st, clo.Lit.Body, fp, info)
	// parameters and locals of the literal are not part of the caller's state
	inside := map[*Cell]bool{}
	ast.Inspect(clo.Lit, func(n ast.Node) bool {
		if id, ok := n.(*ast.Ident); ok {
			if obj := info.Defs[id]; obj != nil {
				if c, ok := e.cells[obj]; ok {
					inside[c] = true
				}
			}
		}
		return true
	})
	e.havocTargets(st, fp.targets)
	for c := range fp.cells {
		if inside[c] {
			continue
		}
		if _, bound := st.store[c]; bound {
			st.store[c] = e.symbolicValue(st, c.Typ, c.Name)
		}
	}
	// one symbolic execution of the body for its obligations
	tmp := st.clone()
	sig := clo.Typ.Underlying().(*types.Signature)
	var args []Value
	for i := 0; i < sig.Params().Len(); i++ {
		args = append(args, e.symbolicValue(tmp, sig.Params().At(i).Type(), "cb"))
	}
	e.inlineClosure(tmp, clo, args, at)
	e.assumptions["a library function given a function literal may call it any number of times: assigned captured variables are havocked, the body is checked once from an arbitrary state"] = true
}

func (e *Exec) freshResults(st *State, rt types.Type, base string) Value {
	if rt == nil {
		return TupleVal{}
	}
	if tup, ok := rt.(*types.Tuple); ok {
		if tup.Len() == 0 {
			return TupleVal{}
		}
		var vs []Value
		for i := 0; i < tup.Len(); i++ {
			vs = append(vs, e.symbolicValue(st, tup.At(i).Type(), base))
		}
		return TupleVal{Vals: vs, Typ: tup}
	}
	return e.symbolicValue(st, rt, base)
}

// applyContract: assert requires, havoc modifies, assume ensures.
func (e *Exec) applyContract(st *State, c *Contract, sig *types.Signature, recv Value, args []Value, rt types.Type,
	at ast.Node, name string) Value {
	old := st.clone()
	env := &SpecEnv{e: e, st: st, old: old, vars: map[string]Value{}, what: "call of " + name, rawArgs: map[string]Value{}}
	if c.Pkg != "" {
		if pk := e.prog.pkgs[c.Pkg]; pk != nil {
			env.pkg = pk.Types
		}
	}
	// bind receiver and parameters
	if r := sig.Recv(); r != nil {
		n := r.Name()
		if c.Recv != "" {
			n = c.Recv
		}
		if n == "" || n == "_" {
			n = "recv"
		}
		env.vars[n] = recv
		env.vars["recv"] = recv
	}
	for i := 0; i < sig.Params().Len(); i++ {
		n := sig.Params().At(i).Name()
		if i < len(c.Params) {
			n = c.Params[i]
		}
		if n == "" || n == "_" {
			n = fmt.Sprintf("p%d", i)
		}
		if i < len(args) {
			env.vars[n] = e.convertAssign(st, args[i], sig.Params().At(i).Type())
			env.rawArgs[n] = args[i]
		}
	}
	if recv != nil {
		env.rawArgs["recv"] = recv
	}
	env.oldVar = map[string]Value{}
	for k, v := range env.vars {
		env.oldVar[k] = v
	}
	for _, l := range c.Lets {
		n := *env
		n.inOld = true
		n.what = "call of " + name + " let " + l.Name
		v := n.eval(l.Expr)
		env.vars[l.Name] = v
		env.oldVar[l.Name] = v
	}
	// preconditions
	for _, r := range c.Requires {
		env.what = "call of " + name + " requires @" + r.Label
		g := env.evalBool(r.Expr)
		tags := r.Tags
		e.oblige(st, "pre", name+":"+r.Label, g, at, tags)
	}
	// modifies
	targets := e.modTargets(env, c.Modifies)
	e.havocTargets(st, targets)
	// allocation may have happened
	na := e.nm.fresh("alloc", SInt)
	st.assume(mkGe(na, old.ghostVar(allocGhost, SInt)))
	st.ghost[allocGhost] = na
	// results
	res := e.freshResults(st, rt, "res")
	names := e.resultNames(sig, c)
	switch r := res.(type) {
	case TupleVal:
		for i, v := range r.Vals {
			if i < len(names) {
				env.vars[names[i]] = v
			}
		}
	default:
		if len(names) > 0 {
			env.vars[names[0]] = res
		}
		env.vars["result"] = res
	}
	// ghost updates
	for _, u := range c.Ghosts {
		env.what = "call of " + name + " update " + u.Name
		v := env.eval(u.Expr)
		st.ghost[u.Name] = specTerm(v)
	}
	var anyBound []*Term
	for _, a := range c.Anys {
		quantCounter++
		bv := mkVar(fmt.Sprintf("%s!q%d", a.Name, quantCounter), specSort(a.Type))
		anyBound = append(anyBound, bv)
		env.vars[a.Name] = wrapTerm(bv)
	}
	for _, en := range c.Ensures {
		env.what = "call of " + name + " ensures @" + en.Label
		if len(anyBound) > 0 && mentionsAny(en.Expr, c.Anys) {
			st.quiet++
			old.quiet++
			body := env.evalBool(en.Expr)
			st.quiet--
			old.quiet--
			st.assume(mkForall(anyBound, body))
			continue
		}
		st.assume(env.evalBool(en.Expr))
	}
	return res
}

// ---------------------------------------------------------------------------------------------
// modifies targets
// ---------------------------------------------------------------------------------------------

type modTarget struct {
	kind string // heap mem ghost
	keys []leafKey
	root *Term // ref (heap) / array id (mem) / index (ghost, may be nil)
	elem *Term // mem: single element index (nil: the whole backing array)
	freshOnly bool // mem, root unknown: only arrays allocated after allocMark may change
	allocMark *Term
	name string
	local *LocalLoc // kind "local": a caller's local variable (or a field of it) reached through a pointer
}

type leafKey struct {
	key  string
	sort *Sort
}

// modTargets evaluates modifies items:  p.f   *p   elems(s)   elems(s).f   ghostname   ghostname[k]
func (e *Exec) modTargets(env *SpecEnv, items []*SExpr) []modTarget {
	var out []modTarget
	for _, it := range items {
		out = append(out, e.modTarget(env, it)...)
	}
	return out
}

func (e *Exec) modTarget(env *SpecEnv, it *SExpr) []modTarget {
	specs := e.prog.specs
	// repr(x): every field of the object the actual argument x points to (when its static type at the
	// call site is a pointer to a module struct); nothing when the dynamic type is not known there.
	if it.Kind == "call" && it.Name == "repr" && len(it.Args) == 1 && it.Args[0].Kind == "ident" {
		v, ok := env.rawArgs[it.Args[0].Name]
		if !ok {
			v = env.eval(it.Args[0])
		}
		sc, isS := v.(Scalar)
		if !isS || sc.Typ == nil {
			return nil
		}
		pt, isP := sc.Typ.Underlying().(*types.Pointer)
		if !isP || reprOf(pt.Elem()) != rStruct {
			return nil
		}
		var ls []leaf
		leavesOf(pt.Elem(), "", &ls)
		t := modTarget{kind: "heap", root: sc.T}
		for _, lf := range ls {
			t.keys = append(t.keys, leafKey{heapFamily(pt.Elem()) + lf.Path, lf.Sort})
		}
		return []modTarget{t}
	}
	// allmem(T) / allmem(T).f: every element (or field f of every element) of every []T backing array
	{
		base, fld := it, ""
		if it.Kind == "field" && len(it.Args) == 1 && it.Args[0].Kind == "call" && it.Args[0].Name == "allmem" {
			base, fld = it.Args[0], "."+it.Name
		}
		if base.Kind == "call" && base.Name == "allmem" && len(base.Args) == 1 && base.Args[0].Kind == "ident" {
			tn := base.Args[0].Name
			if env.pkg != nil && !strings.Contains(tn, ".") {
				tn = env.pkg.Name() + "." + tn
			}
			t := e.prog.namedType(tn)
			if t == nil {
				env.fail(it, "unknown type "+tn)
			}
			var ls []leaf
			leavesOf(t, "", &ls)
			mt := modTarget{kind: "mem"}
			for _, lf := range ls {
				if fld == "" || lf.Path == fld || strings.HasPrefix(lf.Path, fld+".") {
					mt.keys = append(mt.keys, leafKey{memFamily(t) + lf.Path, lf.Sort})
				}
			}
			if len(mt.keys) == 0 {
				env.fail(it, "no such field in "+tn)
			}
			return []modTarget{mt}
		}
	}
	// ghost
	if it.Kind == "ident" {
		if g, ok := specs.Ghosts[it.Name]; ok {
			return []modTarget{{kind: "ghost", name: it.Name, keys: []leafKey{{it.Name, specSort(g.Type)}}}}
		}
	}
	if it.Kind == "index" && it.Args[0].Kind == "ident" {
		if g, ok := specs.Ghosts[it.Args[0].Name]; ok {
			return []modTarget{{kind: "ghost", name: it.Args[0].Name, keys: []leafKey{{it.Args[0].Name, specSort(g.Type)}},
				root: env.evalInt(it.Args[1])}}
		}
	}
	loc, typ := e.modLoc(env, it)
	var ls []leaf
	leavesOf(typ, "", &ls)
	switch l := loc.(type) {
	case *HeapLoc:
		t := modTarget{kind: "heap", root: l.Ref}
		for _, lf := range ls {
			t.keys = append(t.keys, leafKey{l.Fam + l.Path + lf.Path, lf.Sort})
		}
		return []modTarget{t}
	case *MemLoc:
		t := modTarget{kind: "mem", root: l.Arr}
		if !l.Whole {
			t.elem = l.Idx
		}
		for _, lf := range ls {
			t.keys = append(t.keys, leafKey{l.Fam + l.Path + lf.Path, lf.Sort})
		}
		return []modTarget{t}
	}
	if ll, ok := loc.(*LocalLoc); ok {
		// the pointer given by the caller points at one of its locals: the callee may change that local
		return []modTarget{{kind: "local", local: ll}}
	}
	env.fail(it, "modifies item does not denote a heap or memory location")
	return nil
}

// modLoc resolves a modifies item to a location (element index irrelevant for mem).
func (e *Exec) modLoc(env *SpecEnv, it *SExpr) (Loc, types.Type) {
	switch it.Kind {
	case "call":
		if it.Name == "elems" && len(it.Args) == 1 {
			v := env.eval(it.Args[0])
			sv, ok := toSlice(v)
			if !ok {
				env.fail(it, "elems() of non-slice")
			}
			et := sv.Typ.Underlying().(*types.Slice).Elem()
			return &MemLoc{Fam: memFamily(et), Arr: sv.Arr, Idx: tZero, Typ: et, Whole: true}, et
		}
	case "unary":
		if it.Op == "*" {
			// not produced by the parser (no unary *); use deref(p)
		}
	case "field":
		base := it.Args[0]
		// elems(s).f or p.f or p.f.g
		if base.Kind == "call" && base.Name == "elems" || base.Kind == "field" || base.Kind == "ident" || base.Kind == "call" {
			var bl Loc
			var bt types.Type
			if base.Kind == "ident" || (base.Kind == "call" && base.Name != "elems" && base.Name != "deref") {
				v := env.eval(base)
				bl, bt = e.pointeeLoc(env, base, v)
			} else {
				bl, bt = e.modLoc(env, base)
				if p, ok := bt.Underlying().(*types.Pointer); ok {
					v := e.loadLoc(env.state(), bl)
					bl, bt = e.pointeeLoc(env, base, v)
					_ = p
				}
			}
			ft, ok := fieldType(bt, it.Name)
			if !ok {
				env.fail(it, "no field "+it.Name+" in "+bt.String())
			}
			return e.fieldLocDeep(bl, it.Name, ft), ft
		}
	}
	if it.Kind == "call" && it.Name == "deref" && len(it.Args) == 1 {
		v := env.eval(it.Args[0])
		return e.pointeeLoc(env, it, v)
	}
	env.fail(it, "unsupported modifies item")
	return nil, nil
}

func (e *Exec) pointeeLoc(env *SpecEnv, it *SExpr, v Value) (Loc, types.Type) {
	switch p := v.(type) {
	case PtrVal:
		return p.Loc, p.Loc.ltype()
	case Scalar:
		if pt, ok := p.Typ.Underlying().(*types.Pointer); ok {
			return &HeapLoc{Fam: heapFamily(pt.Elem()), Ref: p.T, Typ: pt.Elem()}, pt.Elem()
		}
	}
	env.fail(it, fmt.Sprintf("not a pointer (%T)", v))
	return nil, nil
}

func (e *Exec) havocTargets(st *State, ts []modTarget) {
	for _, t := range ts {
		if t.kind == "local" && t.local != nil {
			if _, bound := st.store[t.local.Cell]; bound {
				e.storeLoc(st, t.local, e.symbolicValue(st, t.local.ltype(), "lv"))
			}
			continue
		}
		for _, k := range t.keys {
			switch t.kind {
			case "heap":
				m := st.heapMap(k.key, k.sort)
				if t.root == nil {
					st.heap[k.key] = e.nm.fresh("H!"+k.key, m.Sort)
				} else {
					st.heap[k.key] = mkStore(m, t.root, e.nm.fresh("hv", k.sort))
				}
			case "mem":
				m := st.memMap(k.key, k.sort)
				if t.root == nil && t.freshOnly {
					m2 := e.nm.fresh("M!"+k.key, m.Sort)
					x := mkVar("x!f", SInt)
					st.assume(mkForall([]*Term{x}, mkImplies(mkLe(x, t.allocMark), mkEq(mkSelect(m2, x), mkSelect(m, x))), mkSelect(m2, x)))
					st.mem[k.key] = m2
				} else if t.root == nil {
					st.mem[k.key] = e.nm.fresh("M!"+k.key, m.Sort)
				} else if t.elem != nil {
					st.mem[k.key] = mkStore(m, t.root, mkStore(mkSelect(m, t.root), t.elem, e.nm.fresh("ev", k.sort)))
				} else {
					st.mem[k.key] = mkStore(m, t.root, e.nm.fresh("mv", SArray(k.sort)))
				}
			case "ghost":
				g := st.ghostVar(k.key, k.sort)
				if t.root == nil || g.Sort.Kind != KArray {
					st.ghost[k.key] = e.nm.fresh("G!"+k.key, g.Sort)
				} else {
					st.ghost[k.key] = mkStore(g, t.root, e.nm.fresh("gv", g.Sort.Elem))
				}
			}
		}
	}
}

// ---------------------------------------------------------------------------------------------
// Builtins and conversions
// ---------------------------------------------------------------------------------------------

func (e *Exec) evalBuiltin(st *State, name string, call *ast.CallExpr) Value {
	info := e.info()
	rt := info.TypeOf(call)
	switch name {
	case "len", "cap":
		v := e.eval(st, call.Args[0])
		switch x := v.(type) {
		case SliceVal:
			if name == "len" {
				return Scalar{x.Len, rt}
			}
			return Scalar{x.Cap, rt}
		case ArrayVal:
			return Scalar{mkInt64(x.N), rt}
		case Scalar:
			if x.T.Sort == SStr {
				l := strLen(x.T)
				st.assume(mkGe(l, tZero))
				return Scalar{l, rt}
			}
			if pt, ok := x.Typ.Underlying().(*types.Pointer); ok {
				if a, ok := pt.Elem().Underlying().(*types.Array); ok {
					return Scalar{mkInt64(a.Len()), rt}
				}
			}
		}
		panic(unsupported(fmt.Sprintf("len of %T", v)))
	case "min", "max":
		r := asTerm(e.eval(st, call.Args[0]))
		for _, a := range call.Args[1:] {
			b := asTerm(e.eval(st, a))
			if name == "min" {
				r = mkMin(r, b)
			} else {
				r = mkMax(r, b)
			}
		}
		return Scalar{r, rt}
	case "new":
		t := info.TypeOf(call.Args[0])
		ref := e.freshRef(st, "new")
		if reprOf(t) != rOpaque {
			e.storeLoc(st, &HeapLoc{Fam: heapFamily(t), Ref: ref, Typ: t}, e.zeroValue(st, t))
		}
		return Scalar{ref, rt}
	case "clear":
		// clear(slice): every element becomes the zero value, nothing else changes
		v := e.eval(st, call.Args[0])
		sv, ok := toSlice(v)
		if !ok {
			panic(unsupported("clear of " + info.TypeOf(call.Args[0]).String()))
		}
		et := sv.Typ.Underlying().(*types.Slice).Elem()
		var ls []leaf
		leavesOf(et, "", &ls)
		for _, l := range ls {
			var z *Term
			switch l.Sort.Kind {
			case KInt:
				z = tZero
			case KBool:
				z = tFalse
			default:
				z = e.strLit("")
			}
			key := memFamily(et) + l.Path
			m := st.memMap(key, l.Sort)
			oldInner := mkSelect(m, sv.Arr)
			inner := e.nm.fresh("cleared", SArray(l.Sort))
			k := mkVar("k!c", SInt)
			in := mkAnd(mkLe(sv.Off, k), mkLt(k, mkAdd(sv.Off, sv.Len)))
			st.assume(mkForall([]*Term{k}, mkEq(mkSelect(inner, k), mkIte(in, z, mkSelect(oldInner, k))), mkSelect(inner, k)))
			st.mem[key] = mkStore(m, sv.Arr, inner)
		}
		return TupleVal{}
	case "make":
		t := info.TypeOf(call.Args[0])
		sl, ok := t.Underlying().(*types.Slice)
		if !ok {
			panic(unsupported("make of " + t.String()))
		}
		n := asTerm(e.eval(st, call.Args[1]))
		cp := n
		if len(call.Args) > 2 {
			cp = asTerm(e.eval(st, call.Args[2]))
		}
		e.safety(st, "alloc", mkAnd(mkLe(tZero, n), mkLe(n, cp), mkLe(cp, e.allocBound(st))), call)
		id := e.freshArray(st, "make", sl.Elem())
		e.fillZero(st, sl.Elem(), id, tZero, cp)
		return SliceVal{Arr: id, Off: tZero, Len: n, Cap: cp, Typ: t}
	case "append":
		return e.evalAppend(st, call)
	case "copy":
		dst, _ := toSlice(e.eval(st, call.Args[0]))
		srcV := e.eval(st, call.Args[1])
		if s, ok := srcV.(Scalar); ok && s.T.Sort == SStr {
			n := mkMin(dst.Len, strLen(s.T))
			e.copyFromString(st, dst, s.T, n)
			return Scalar{n, rt}
		}
		src, _ := toSlice(srcV)
		n := mkMin(dst.Len, src.Len)
		e.copyElems(st, dst, src, n)
		return Scalar{n, rt}
	case "panic":
		e.safety(st, "unreachable", tFalse, call)
		st.assume(tFalse)
		return TupleVal{}
	case "recover":
		panic(unsupported("recover"))
	}
	panic(unsupported("builtin " + name))
}

const defaultAllocBound = 1 << 24

func (e *Exec) allocBound(st *State) *Term {
	if e.contract != nil && e.contract.Alloc != nil {
		env := e.funcEnv(st, e.entry)
		env.what = e.funcName() + " alloc"
		return env.evalInt(e.contract.Alloc)
	}
	return mkInt64(defaultAllocBound)
}

// copyElems: dst[0..n) = src[0..n), everything else unchanged (per leaf).
func (e *Exec) copyElems(st *State, dst, src SliceVal, n *Term) {
	et := dst.Typ.Underlying().(*types.Slice).Elem()
	var ls []leaf
	leavesOf(et, "", &ls)
	fam := memFamily(et)
	for _, l := range ls {
		key := fam + l.Path
		m := st.memMap(key, l.Sort)
		srcInner := mkSelect(m, src.Arr)
		dstInner := mkSelect(m, dst.Arr)
		if n.isInt() && n.Val.IsInt64() && n.Val.Int64() <= 32 {
			ni := dstInner
			for k := int64(0); k < n.Val.Int64(); k++ {
				kk := mkInt64(k)
				ni = mkStore(ni, mkAdd(dst.Off, kk), mkSelect(srcInner, mkAdd(src.Off, kk)))
			}
			st.mem[key] = mkStore(m, dst.Arr, ni)
			continue
		}
		ni := e.nm.fresh("copied", SArray(l.Sort))
		k := mkVar("k!c", SInt)
		inRange := mkAnd(mkLe(dst.Off, k), mkLt(k, mkAdd(dst.Off, n)))
		st.assume(mkForall([]*Term{k}, mkEq(mkSelect(ni, k),
			mkIte(inRange, mkSelect(srcInner, mkAdd(src.Off, mkSub(k, dst.Off))), mkSelect(dstInner, k))), mkSelect(ni, k)))
		st.mem[key] = mkStore(m, dst.Arr, ni)
	}
}

func (e *Exec) copyFromString(st *State, dst SliceVal, s, n *Term) {
	key := memFamily(types.Typ[types.Uint8])
	m := st.memMap(key, SInt)
	dstInner := mkSelect(m, dst.Arr)
	ni := e.nm.fresh("copied", SArray(SInt))
	k := mkVar("k!c", SInt)
	inRange := mkAnd(mkLe(dst.Off, k), mkLt(k, mkAdd(dst.Off, n)))
	st.assume(mkForall([]*Term{k}, mkEq(mkSelect(ni, k),
		mkIte(inRange, strByte(s, mkSub(k, dst.Off)), mkSelect(dstInner, k))), mkSelect(ni, k)))
	st.mem[key] = mkStore(m, dst.Arr, ni)
}

// evalAppend models append functionally: the result has a fresh backing array holding the old
// elements followed by the new ones (the aliasing of spare capacity is not modelled).
func (e *Exec) evalAppend(st *State, call *ast.CallExpr) Value {
	info := e.info()
	rt := info.TypeOf(call)
	base, _ := toSlice(e.eval(st, call.Args[0]))
	base.Typ = rt
	et := rt.Underlying().(*types.Slice).Elem()
	e.assumptions["append returns a fresh backing array (sharing of spare capacity with the argument is not modelled)"] = true
	var ls []leaf
	leavesOf(et, "", &ls)
	fam := memFamily(et)
	if call.Ellipsis.IsValid() {
		srcV := e.eval(st, call.Args[1])
		id := e.freshArray(st, "app", et)
		var n *Term
		if s, ok := srcV.(Scalar); ok && s.T.Sort == SStr {
			n = strLen(s.T)
			st.assume(mkGe(n, tZero))
			key := fam
			m := st.memMap(key, SInt)
			oldInner := mkSelect(m, base.Arr)
			ni := e.nm.fresh("appended", SArray(SInt))
			k := mkVar("k!a", SInt)
			st.assume(mkForall([]*Term{k}, mkImplies(mkAnd(mkLe(tZero, k), mkLt(k, mkAdd(base.Len, n))),
				mkEq(mkSelect(ni, k), mkIte(mkLt(k, base.Len), mkSelect(oldInner, mkAdd(base.Off, k)), strByte(s.T, mkSub(k, base.Len))))), mkSelect(ni, k)))
			st.mem[key] = mkStore(m, id, ni)
		} else if src0, ok := toSlice(srcV); ok && src0.Len.isInt() && src0.Len.Val.IsInt64() && src0.Len.Val.Int64() <= 8 {
			// a source of known small length (a packed variadic argument): the same as appending its
			// elements one by one - direct stores instead of a quantified copy
			nv := src0.Len.Val.Int64()
			if nv == 0 {
				return base
			}
			nl := mkAdd(base.Len, mkInt64(nv))
			for _, l := range ls {
				key := fam + l.Path
				m := st.memMap(key, l.Sort)
				oldInner := mkSelect(m, base.Arr)
				ni := e.nm.fresh("appended", SArray(l.Sort))
				k := mkVar("k!a", SInt)
				st.assume(mkForall([]*Term{k}, mkImplies(mkAnd(mkLe(tZero, k), mkLt(k, base.Len)),
					mkEq(mkSelect(ni, k), mkSelect(oldInner, mkAdd(base.Off, k)))), mkSelect(ni, k)))
				st.mem[key] = mkStore(m, id, ni)
			}
			nc := e.nm.fresh("cap", SInt)
			st.assume(mkGe(nc, nl))
			res := SliceVal{Arr: id, Off: tZero, Len: nl, Cap: nc, Typ: rt}
			for i := int64(0); i < nv; i++ {
				v := e.loadLoc(st, sliceElemLoc(src0, mkInt64(i)))
				e.storeLoc(st, sliceElemLoc(res, mkAdd(base.Len, mkInt64(i))), v)
			}
			e.safety(st, "alloc", mkLe(nl, e.allocBound(st)), call)
			return res
		} else {
			src, _ := toSlice(srcV)
			n = src.Len
			for _, l := range ls {
				key := fam + l.Path
				m := st.memMap(key, l.Sort)
				oldInner := mkSelect(m, base.Arr)
				srcInner := mkSelect(m, src.Arr)
				ni := e.nm.fresh("appended", SArray(l.Sort))
				k := mkVar("k!a", SInt)
				st.assume(mkForall([]*Term{k}, mkImplies(mkAnd(mkLe(tZero, k), mkLt(k, mkAdd(base.Len, n))),
					mkEq(mkSelect(ni, k), mkIte(mkLt(k, base.Len), mkSelect(oldInner, mkAdd(base.Off, k)), mkSelect(srcInner, mkAdd(src.Off, mkSub(k, base.Len)))))), mkSelect(ni, k)))
				st.mem[key] = mkStore(m, id, ni)
			}
		}
		nl := mkAdd(base.Len, n)
		e.safety(st, "alloc", mkLe(nl, e.allocBound(st)), call)
		nc := e.nm.fresh("cap", SInt)
		st.assume(mkGe(nc, nl))
		return SliceVal{Arr: id, Off: tZero, Len: nl, Cap: nc, Typ: rt}
	}
	var vals []Value
	for _, a := range call.Args[1:] {
		vals = append(vals, e.convertAssign(st, e.eval(st, a), et))
	}
	if len(vals) == 0 {
		return base
	}
	id := e.freshArray(st, "app", et)
	nl := mkAdd(base.Len, mkInt64(int64(len(vals))))
	for _, l := range ls {
		key := fam + l.Path
		m := st.memMap(key, l.Sort)
		oldInner := mkSelect(m, base.Arr)
		ni := e.nm.fresh("appended", SArray(l.Sort))
		k := mkVar("k!a", SInt)
		st.assume(mkForall([]*Term{k}, mkImplies(mkAnd(mkLe(tZero, k), mkLt(k, base.Len)),
			mkEq(mkSelect(ni, k), mkSelect(oldInner, mkAdd(base.Off, k)))), mkSelect(ni, k)))
		st.mem[key] = mkStore(m, id, ni)
	}
	nc := e.nm.fresh("cap", SInt)
	st.assume(mkGe(nc, nl))
	res := SliceVal{Arr: id, Off: tZero, Len: nl, Cap: nc, Typ: rt}
	for i, v := range vals {
		e.storeLoc(st, sliceElemLoc(res, mkAdd(base.Len, mkInt64(int64(i)))), v)
	}
	e.safety(st, "alloc", mkLe(nl, e.allocBound(st)), call)
	return res
}

func (e *Exec) convert(st *State, v Value, to types.Type, at ast.Node) Value {
	from := v.vtype()
	switch reprOf(to) {
	case rInt:
		s, ok := v.(Scalar)
		if !ok || s.T.Sort.Kind != KInt {
			panic(unsupported("conversion to integer from " + fmt.Sprint(from)))
		}
		if reprOf(from) == rInt {
			flo, fhi, fok := intRange(from)
			tlo, thi, _ := intRange(to)
			if fok && flo.Cmp(tlo) >= 0 && fhi.Cmp(thi) <= 0 {
				return Scalar{s.T, to}
			}
			if s.T.isInt() && s.T.Val.Cmp(tlo) >= 0 && s.T.Val.Cmp(thi) <= 0 {
				return Scalar{s.T, to}
			}
			if e.truncOK(at) || e.convWrapOK(from, to) {
				return Scalar{wrapTerm2(s.T, to), to}
			}
			e.safety(st, "overflow", inRangeTerm(s.T, to), at)
			return Scalar{s.T, to}
		}
	case rString:
		switch x := v.(type) {
		case Scalar:
			if x.T.Sort == SStr {
				return Scalar{x.T, to}
			}
			if x.T.Sort.Kind == KInt && reprOf(from) == rInt {
				// string(rune/byte)
				r := mkApp("str!ofrune", SStr, x.T)
				st.assume(mkImplies(mkAnd(mkLe(tZero, x.T), mkLt(x.T, mkInt64(128))), mkAnd(mkEq(strLen(r), tOne), mkEq(strByte(r, tZero), x.T))))
				return Scalar{r, to}
			}
		case SliceVal:
			// string(bytes): a string whose bytes are the slice's bytes
			r := e.nm.fresh("strof", SStr)
			st.assume(mkEq(strLen(r), x.Len))
			m := st.memMap(memFamily(types.Typ[types.Uint8]), SInt)
			inner := mkSelect(m, x.Arr)
			if x.Len.isInt() && x.Len.Val.IsInt64() && x.Len.Val.Int64() <= 32 {
				for k := int64(0); k < x.Len.Val.Int64(); k++ {
					st.assume(mkEq(strByte(r, mkInt64(k)), mkSelect(inner, mkAdd(x.Off, mkInt64(k)))))
				}
			} else {
				k := mkVar("k!s", SInt)
				st.assume(mkForall([]*Term{k}, mkImplies(mkAnd(mkLe(tZero, k), mkLt(k, x.Len)),
					mkEq(strByte(r, k), mkSelect(inner, mkAdd(x.Off, k)))), strByte(r, k)))
			}
			return Scalar{r, to}
		}
	case rSlice:
		if s, ok := v.(Scalar); ok && s.T.Sort == SStr {
			// []byte(string)
			id := e.freshRef(st, "bytesof")
			n := strLen(s.T)
			st.assume(mkGe(n, tZero))
			key := memFamily(types.Typ[types.Uint8])
			m := st.memMap(key, SInt)
			ni := e.nm.fresh("bytes", SArray(SInt))
			k := mkVar("k!b", SInt)
			st.assume(mkForall([]*Term{k}, mkImplies(mkAnd(mkLe(tZero, k), mkLt(k, n)), mkEq(mkSelect(ni, k), strByte(s.T, k))), mkSelect(ni, k)))
			st.mem[key] = mkStore(m, id, ni)
			return SliceVal{Arr: id, Off: tZero, Len: n, Cap: n, Typ: to}
		}
		if sv, ok := v.(SliceVal); ok {
			sv.Typ = to
			return sv
		}
		if isNilVal(v) {
			return SliceVal{tZero, tZero, tZero, tZero, to}
		}
	case rRef:
		// pointer-to-array from slice: (*[N]T)(s)
		if pt, ok := to.Underlying().(*types.Pointer); ok {
			if at2, ok := pt.Elem().Underlying().(*types.Array); ok {
				if sv, ok := v.(SliceVal); ok {
					e.safety(st, "bounds", mkGe(sv.Len, mkInt64(at2.Len())), at)
					// the array object aliases the slice's backing store from Off
					if !sv.Off.isInt() || sv.Off.Val.Sign() != 0 {
						// represent as a view: array id with an offset is not supported by ArrayVal; copy semantics
						// are wrong for writes, so only reads through the pointer are supported.
						id := e.freshRef(st, "arrview")
						et := at2.Elem()
						var ls []leaf
						leavesOf(et, "", &ls)
						for _, l := range ls {
							key := memFamily(et) + l.Path
							m := st.memMap(key, l.Sort)
							inner := mkSelect(m, sv.Arr)
							ni := mkSelect(m, id)
							for k := int64(0); k < at2.Len() && k < 64; k++ {
								ni = mkStore(ni, mkInt64(k), mkSelect(inner, mkAdd(sv.Off, mkInt64(k))))
							}
							st.mem[key] = mkStore(m, id, ni)
						}
						if at2.Len() > 64 {
							panic(unsupported("slice to large array pointer conversion"))
						}
						e.assumptions["slice-to-array-pointer conversion is modelled as a read-only snapshot"] = true
						c := e.newCell("arrview", pt.Elem())
						st.store[c] = ArrayVal{Arr: id, N: at2.Len(), Typ: pt.Elem()}
						return PtrVal{Loc: &LocalLoc{Cell: c, Typ: pt.Elem()}, Typ: to}
					}
					c := e.newCell("arrview", pt.Elem())
					st.store[c] = ArrayVal{Arr: sv.Arr, N: at2.Len(), Typ: pt.Elem()}
					return PtrVal{Loc: &LocalLoc{Cell: c, Typ: pt.Elem()}, Typ: to}
				}
			}
		}
		if _, isIface := to.Underlying().(*types.Interface); isIface {
			return e.box(st, v, to)
		}
		if s, ok := v.(Scalar); ok {
			return Scalar{s.T, to}
		}
		if p, ok := v.(PtrVal); ok {
			return PtrVal{Loc: p.Loc, Typ: to}
		}
		if c, ok := v.(ClosureVal); ok {
			c.Typ = to
			return c
		}
	case rStruct:
		if sv, ok := v.(StructVal); ok {
			return StructVal{Fields: sv.Fields, Typ: to}
		}
	case rOpaque:
		if s, ok := v.(Scalar); ok {
			return Scalar{s.T, to}
		}
	case rBool:
		if s, ok := v.(Scalar); ok {
			return Scalar{s.T, to}
		}
	case rArray:
		if av, ok := v.(ArrayVal); ok {
			av.Typ = to
			return av
		}
	}
	panic(unsupported(fmt.Sprintf("conversion from %v to %s", from, to)))
}

// truncOK: conversions/operations whose wrap-around the contract declares intended ("wrapok <text>").
func (e *Exec) truncOK(at ast.Node) bool {
	if e.contract == nil || at == nil {
		return false
	}
	txt := strings.Join(strings.Fields(e.nodeText(at)), "")
	for _, w := range e.contract.WrapOK {
		if w == txt {
			return true
		}
	}
	// the same expression with local variables renamed is still the expression the contract names
	if x, isExpr := at.(ast.Expr); isExpr {
		for _, w := range e.contract.WrapOK {
			if strings.HasPrefix(w, "conv:") {
				continue
			}
			pat, err := parser.ParseExpr(w)
			if err != nil {
				continue
			}
			fwd, bwd := map[string]string{}, map[string]string{}
			if e.sameUpToLocals(pat, x, fwd, bwd) {
				return true
			}
		}
	}
	return false
}

// sameUpToLocals compares a contract expression with a code expression; an identifier of the contract that names
// nothing in the function may stand for a local variable of the code (consistently, one-to-one).
func (e *Exec) sameUpToLocals(pat, x ast.Expr, fwd, bwd map[string]string) bool {
	pat, x = ast.Unparen(pat), ast.Unparen(x)
	switch p := pat.(type) {
	case *ast.Ident:
		c, ok := x.(*ast.Ident)
		if !ok {
			return false
		}
		if p.Name == c.Name {
			return true
		}
		v, isVar := e.info().Uses[c].(*types.Var)
		if !isVar || v.IsField() || v.Parent() == nil || v.Parent() == v.Pkg().Scope() {
			return false
		}
		if sc := e.curPkg().Types.Scope().Innermost(c.Pos()); sc != nil {
			if _, o := sc.LookupParent(p.Name, c.Pos()); o != nil {
				return false
			}
		}
		if a, ok := fwd[p.Name]; ok && a != c.Name {
			return false
		}
		if b, ok := bwd[c.Name]; ok && b != p.Name {
			return false
		}
		fwd[p.Name], bwd[c.Name] = c.Name, p.Name
		return true
	case *ast.BasicLit:
		c, ok := x.(*ast.BasicLit)
		return ok && c.Kind == p.Kind && c.Value == p.Value
	case *ast.SelectorExpr:
		c, ok := x.(*ast.SelectorExpr)
		return ok && c.Sel.Name == p.Sel.Name && e.sameUpToLocals(p.X, c.X, fwd, bwd)
	case *ast.BinaryExpr:
		c, ok := x.(*ast.BinaryExpr)
		return ok && c.Op == p.Op && e.sameUpToLocals(p.X, c.X, fwd, bwd) && e.sameUpToLocals(p.Y, c.Y, fwd, bwd)
	case *ast.UnaryExpr:
		c, ok := x.(*ast.UnaryExpr)
		return ok && c.Op == p.Op && e.sameUpToLocals(p.X, c.X, fwd, bwd)
	case *ast.StarExpr:
		c, ok := x.(*ast.StarExpr)
		return ok && e.sameUpToLocals(p.X, c.X, fwd, bwd)
	case *ast.IndexExpr:
		c, ok := x.(*ast.IndexExpr)
		return ok && e.sameUpToLocals(p.X, c.X, fwd, bwd) && e.sameUpToLocals(p.Index, c.Index, fwd, bwd)
	case *ast.CallExpr:
		c, ok := x.(*ast.CallExpr)
		if !ok || len(c.Args) != len(p.Args) || !e.sameUpToLocals(p.Fun, c.Fun, fwd, bwd) {
			return false
		}
		for i := range p.Args {
			if !e.sameUpToLocals(p.Args[i], c.Args[i], fwd, bwd) {
				return false
			}
		}
		return true
	}
	return false
}

var _ = token.ADD

func mentionsAny(x *SExpr, anys []binder) bool {
	if x == nil {
		return false
	}
	if x.Kind == "ident" {
		for _, a := range anys {
			if a.Name == x.Name {
				return true
			}
		}
	}
	for _, a := range x.Args {
		if mentionsAny(a, anys) {
			return true
		}
	}
	return false
}

func renameParams(inst, generic *types.Tuple) *types.Tuple {
	var vs []*types.Var
	for i := 0; i < inst.Len(); i++ {
		n := inst.At(i).Name()
		if i < generic.Len() && generic.At(i).Name() != "" {
			n = generic.At(i).Name()
		}
		vs = append(vs, types.NewParam(inst.At(i).Pos(), inst.At(i).Pkg(), n, inst.At(i).Type()))
	}
	return types.NewTuple(vs...)
}

// convWrapOK: the contract declares conversions between these two integer types as intentionally
// wrapping ("wrapok conv:int64->uint64"), independent of the operand's spelling.
func (e *Exec) convWrapOK(from, to types.Type) bool {
	if e.contract == nil {
		return false
	}
	fb, ok1 := from.Underlying().(*types.Basic)
	tb, ok2 := to.Underlying().(*types.Basic)
	if !ok1 || !ok2 {
		return false
	}
	norm := func(b *types.Basic) string {
		if int(b.Kind()) < len(types.Typ) && types.Typ[b.Kind()] != nil {
			return types.Typ[b.Kind()].Name() // byte -> uint8, rune -> int32
		}
		return b.Name()
	}
	key := "conv:" + norm(fb) + "->" + norm(tb)
	for _, w := range e.contract.WrapOK {
		if w == key {
			return true
		}
	}
	return false
}

// havocPointee: a library function given a pointer to a local variable (directly or boxed into an
// interface) may write through it; the variable gets an arbitrary well-typed value afterwards.
func (e *Exec) havocPointee(st *State, a Value) {
	var pv PtrVal
	switch x := a.(type) {
	case PtrVal:
		pv = x
	case Scalar:
		if x.T.Op == "var" {
			if b, ok := e.boxedPtrs[x.T.Name]; ok {
				pv = b
			}
		}
	}
	ll, ok := pv.Loc.(*LocalLoc)
	if !ok || pv.Loc == nil {
		return
	}
	t := ll.Typ
	if reprOf(t) == rOpaque {
		return
	}
	e.storeLoc(st, ll, e.symbolicValue(st, t, "out"))
}

// copyFastPaths: io.Copy / io.CopyBuffer hand the whole transfer to src.WriteTo or dst.ReadFrom when the
// dynamic type has one (io.CopyN only to dst.ReadFrom); the assumed contracts of these functions describe
// the plain Read/Write loop. A module type that declares such a method and can be the operand takes the
// transfer outside every contract, so its existence fails an obligation at the call (library types are
// covered by the assumed contract).
func (e *Exec) copyFastPaths(st *State, call *ast.CallExpr, name string) {
	if name != "io.Copy" && name != "io.CopyBuffer" && name != "io.CopyN" {
		return
	}
	if len(call.Args) < 2 {
		return
	}
	info := e.info()
	check := func(arg ast.Expr, method, role string) {
		at := info.TypeOf(arg)
		if at == nil {
			return
		}
		var offenders []string
		hasMethod := func(t types.Type) bool {
			ms := types.NewMethodSet(t)
			for i := 0; i < ms.Len(); i++ {
				if ms.At(i).Obj().Name() == method && ms.At(i).Obj().Pkg() != nil && inModule(ms.At(i).Obj().Pkg()) {
					return true
				}
			}
			return false
		}
		if iface, ok := at.Underlying().(*types.Interface); ok {
			var paths []string
			for path := range e.prog.pkgs {
				paths = append(paths, path)
			}
			sort.Strings(paths)
			for _, path := range paths {
				pk := e.prog.pkgs[path]
				if pk.Types == nil || !inModule(pk.Types) {
					continue
				}
				sc := pk.Types.Scope()
				for _, nm := range sc.Names() {
					tn, ok := sc.Lookup(nm).(*types.TypeName)
					if !ok || tn.IsAlias() {
						continue
					}
					if _, isIface := tn.Type().Underlying().(*types.Interface); isIface {
						continue
					}
					for _, t := range []types.Type{tn.Type(), types.NewPointer(tn.Type())} {
						if types.Implements(t, iface) && hasMethod(t) {
							offenders = append(offenders, typeKey(t))
							break
						}
					}
				}
			}
		} else if hasMethod(at) {
			offenders = append(offenders, typeKey(at))
		}
		for _, o := range offenders {
			e.oblige(st, "pre", name+":"+role+"-"+o+"-declares-"+method+"-which-takes-the-transfer-outside-the-contract", tFalse, call, nil)
		}
	}
	check(call.Args[0], "ReadFrom", "destination")
	if name != "io.CopyN" {
		check(call.Args[1], "WriteTo", "source")
	}
}
