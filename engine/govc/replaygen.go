package govc

import (
	"fmt"
	"go/types"
	"math/big"
	"os"
	"sort"
	"strings"

	"golang.org/x/tools/go/packages"
)

type bigIntAlias = big.Int

type entryInfo struct {
	vals []entryVal
	pkg  *packages.Package
	fn   *types.Func
	c    *Contract
}

const govcFileSupport = `
type govcFile struct {
	data []byte
	pos  int64
	closed bool
}

func newGovcFile(size int64, bytes map[int64]byte, pos int64) *govcFile {
	f := &govcFile{data: make([]byte, size), pos: pos}
	for i, b := range bytes {
		if i >= 0 && i < size {
			f.data[i] = b
		}
	}
	return f
}

func (f *govcFile) Read(p []byte) (int, error) {
	if f.pos >= int64(len(f.data)) {
		return 0, io.EOF
	}
	n := copy(p, f.data[f.pos:])
	f.pos += int64(n)
	return n, nil
}
func (f *govcFile) ReadAt(p []byte, off int64) (int, error) {
	if off < 0 {
		return 0, fmt.Errorf("negative offset")
	}
	if off >= int64(len(f.data)) {
		return 0, io.EOF
	}
	n := copy(p, f.data[off:])
	if n < len(p) {
		return n, io.EOF
	}
	return n, nil
}
func (f *govcFile) Seek(off int64, whence int) (int64, error) {
	var np int64
	switch whence {
	case 0:
		np = off
	case 1:
		np = f.pos + off
	case 2:
		np = int64(len(f.data)) + off
	default:
		return 0, fmt.Errorf("bad whence")
	}
	if np < 0 {
		return 0, fmt.Errorf("negative position")
	}
	f.pos = np
	return np, nil
}
func (f *govcFile) Write(p []byte) (int, error)              { return 0, fmt.Errorf("read-only") }
func (f *govcFile) WriteAt(p []byte, off int64) (int, error) { return 0, fmt.Errorf("read-only") }
func (f *govcFile) WriteString(s string) (int, error)        { return 0, fmt.Errorf("read-only") }
func (f *govcFile) Truncate(int64) error                     { return fmt.Errorf("read-only") }
func (f *govcFile) Sync() error                              { return nil }
func (f *govcFile) Close() error                             { f.closed = true; return nil }
func (f *govcFile) Name() string                             { return "govc-replay-file" }
func (f *govcFile) Readdir(int) ([]os.FileInfo, error)       { return nil, fmt.Errorf("not a directory") }
func (f *govcFile) Readdirnames(int) ([]string, error)       { return nil, fmt.Errorf("not a directory") }
func (f *govcFile) Stat() (os.FileInfo, error)               { return govcStat{f}, nil }

type govcStat struct{ f *govcFile }

func (s govcStat) Name() string       { return "govc-replay-file" }
func (s govcStat) Size() int64        { return int64(len(s.f.data)) }
func (s govcStat) Mode() os.FileMode  { return 0o644 }
func (s govcStat) ModTime() time.Time { return time.Unix(0, 0) }
func (s govcStat) IsDir() bool        { return false }
func (s govcStat) Sys() interface{}   { return nil }
`

func (p *Program) buildReplayTest(o *Obligation) (src, pkgDir, why string) {
	ei := o.Entry
	if ei == nil {
		return "", "", "no entry state recorded"
	}
	switch o.Kind {
	case "overflow":
		return "", "", "integer overflow has no failure of its own at run time (wrap-around); the obligation stands on the solver's model"
	case "alloc":
		return "", "", "allocation bounds are not replayed (the model may ask for gigabytes)"
	case "frame", "decreases", "inv-init", "inv-keep":
		return "", "", "obligation kind " + o.Kind + " is not observable from outside the function"
	}
	dir, err := os.MkdirTemp("", "govc-rq-")
	if err != nil {
		return "", "", err.Error()
	}
	if os.Getenv("GOVC_KEEP_REPLAY") == "" { defer os.RemoveAll(dir) }
	rc := &replayCtx{prog: p, o: o, pinned: map[string]string{}, want: map[string]*Term{}, objs: map[string]string{},
		pkg: ei.pkg.Types, imports: map[string]bool{"testing": true}}
	var args []string
	var recvExpr string
	render := func() bool {
		args = nil
		recvExpr = ""
		rc.decls = nil
		rc.objs = map[string]string{}
		rc.nvar = 0
		ok := true
		for _, ev := range ei.vals {
			ex, got := rc.goExpr(ev.Val, ev.Typ)
			if !got {
				ok = false
				if rc.fail != "" {
					return false
				}
				continue
			}
			if ev.Recv {
				recvExpr = ex
			} else {
				args = append(args, ex)
			}
		}
		return ok
	}
	done := false
	for round := 0; round < 8; round++ {
		if render() {
			done = true
			break
		}
		if rc.fail != "" {
			return "", "", rc.fail
		}
		if !rc.fetch(dir, round, true) {
			return "", "", rc.fail
		}
	}
	if !done {
		return "", "", "model too deep to concretise"
	}
	sig := ei.fn.Type().(*types.Signature)
	var b strings.Builder
	call := ei.fn.Name() + "(" + strings.Join(args, ", ") + ")"
	if sig.Recv() != nil {
		call = "recv." + call
	}
	var resNames []string
	for i := 0; i < sig.Results().Len(); i++ {
		resNames = append(resNames, fmt.Sprintf("r%d", i))
	}
	body := &strings.Builder{}
	for _, d := range rc.decls {
		fmt.Fprintf(body, "\t%s\n", d)
	}
	if sig.Recv() != nil {
		fmt.Fprintf(body, "\trecv := %s\n\t_ = recv\n", recvExpr)
	}
	argNames := make([]string, len(args))
	for i, a := range args {
		argNames[i] = fmt.Sprintf("a%d", i)
		fmt.Fprintf(body, "\ta%d := %s\n\t_ = a%d\n", i, a, i)
		pt := sig.Params().At(i).Type()
		switch reprOf(pt) {
		case rSlice:
			fmt.Fprintf(body, "\told_a%d := append(%s(nil), a%d...)\n\t_ = old_a%d\n", i, rc.typeStr(pt), i, i)
		case rInt, rBool, rString:
			fmt.Fprintf(body, "\told_a%d := a%d\n\t_ = old_a%d\n", i, i, i)
		}
	}
	call = ei.fn.Name() + "(" + strings.Join(argNames, ", ") + ")"
	if sig.Recv() != nil {
		call = "recv." + call
	}
	fmt.Fprintf(body, "\tvar panicked interface{}\n")
	for i, rn := range resNames {
		fmt.Fprintf(body, "\tvar %s %s\n\t_ = %s\n", rn, rc.typeStr(sig.Results().At(i).Type()), rn)
	}
	fmt.Fprintf(body, "\tfunc() {\n\t\tdefer func() { panicked = recover() }()\n")
	if len(resNames) > 0 {
		fmt.Fprintf(body, "\t\t%s = %s\n", strings.Join(resNames, ", "), call)
	} else {
		fmt.Fprintf(body, "\t\t%s\n", call)
	}
	fmt.Fprintf(body, "\t}()\n")
	fmt.Fprintf(body, "\tif panicked != nil {\n\t\tt.Fatalf(\"GOVC-REPLAY-VIOLATION: %s: the real function panicked: %%v\", panicked)\n\t}\n", o.Name)
	switch o.Kind {
	case "post":
		chk, ok := p.compilePost(o, ei, rc, resNames)
		if !ok {
			fmt.Fprintf(body, "\tt.Log(\"clause not executable in replay: %s\")\n", strings.ReplaceAll(chk, "\"", "'"))
		} else {
			body.WriteString(chk)
		}
	}
	rc.imports["fmt"] = true
	if rc.needFile {
		rc.imports["io"] = true
		rc.imports["os"] = true
		rc.imports["time"] = true
	}
	fmt.Fprintf(&b, "package %s\n\nimport (\n", ei.pkg.Types.Name())
	var imps []string
	for im := range rc.imports {
		imps = append(imps, im)
	}
	sort.Strings(imps)
	for _, im := range imps {
		fmt.Fprintf(&b, "\t%q\n", im)
	}
	fmt.Fprintf(&b, ")\n\nvar _ = fmt.Sprint\n\n// generated by govc from the solver model of obligation %s\nfunc TestGovcReplay(t *testing.T) {\n", o.Name)
	b.WriteString(body.String())
	b.WriteString("}\n")
	if rc.needFile {
		b.WriteString(govcFileSupport)
	}
	pd := ""
	if len(ei.pkg.GoFiles) > 0 {
		pd = dirOf(ei.pkg.GoFiles[0])
	}
	return b.String(), pd, ""
}

func dirOf(f string) string {
	i := strings.LastIndex(f, "/")
	if i < 0 {
		return "."
	}
	return f[:i]
}

// compilePost turns simple postcondition clauses into a Go check (limited: results, parameters,
// arithmetic, comparisons, len). Anything else is reported as not executable.
func (p *Program) compilePost(o *Obligation, ei *entryInfo, rc *replayCtx, resNames []string) (string, bool) {
	if ei.c == nil {
		return "no contract", false
	}
	// find clause by label
	var cl *Clause
	for _, en := range ei.c.Ensures {
		if strings.Contains(o.Name, "#post:"+en.Label+"#") {
			cl = en
		}
	}
	if cl == nil {
		return "clause not found", false
	}
	sig := ei.fn.Type().(*types.Signature)
	names := map[string]string{}
	for i := 0; i < sig.Results().Len(); i++ {
		n := sig.Results().At(i).Name()
		if i < len(ei.c.Results) {
			n = ei.c.Results[i]
		}
		if n == "" || n == "_" {
			n = fmt.Sprintf("ret%d", i)
		}
		names[n] = resNames[i]
		if sig.Results().Len() == 1 {
			names["result"] = resNames[i]
		}
	}
	oldNames := map[string]string{}
	for i := 0; i < sig.Params().Len(); i++ {
		n := sig.Params().At(i).Name()
		if i < len(ei.c.Params) {
			n = ei.c.Params[i]
		}
		if n == "" || n == "_" {
			continue
		}
		names[n] = fmt.Sprintf("a%d", i)
		switch reprOf(sig.Params().At(i).Type()) {
		case rSlice, rInt, rBool, rString:
			oldNames[n] = fmt.Sprintf("old_a%d", i)
		}
	}
	if sig.Recv() != nil {
		rn := sig.Recv().Name()
		if ei.c.Recv != "" {
			rn = ei.c.Recv
		}
		if rn != "" && rn != "_" {
			names[rn] = "recv"
		}
		names["recv"] = "recv"
	}
	g := &goCompiler{names: names, oldNames: oldNames, rc: rc, prog: p, pkg: ei.c.Pkg, subst: map[string]string{}}
	for _, l := range ei.c.Lets {
		if v, ok := g.expr(l.Expr); ok {
			g.subst[l.Name] = v
		}
	}
	src, ok := g.expr(cl.Expr)
	if !ok {
		return g.why, false
	}
	return fmt.Sprintf("\tif !(%s) {\n\t\tt.Fatalf(\"GOVC-REPLAY-VIOLATION: %s: postcondition @%s is false on the real code (results: %%v)\", []interface{}{%s})\n\t}\n",
		src, o.Name, cl.Label, strings.Join(resNames, ", ")), true
}

type goCompiler struct {
	names    map[string]string
	oldNames map[string]string
	inOld    bool
	rc    *replayCtx
	why   string
	prog  *Program
	pkg   string
	subst map[string]string // spec-function parameters / lets -> compiled Go text
	depth int
}

func (g *goCompiler) expr(x *SExpr) (string, bool) {
	switch x.Kind {
	case "int":
		return "int64(" + x.Int.String() + ")", true
	case "ident":
		switch x.Name {
		case "true", "false", "nil":
			return x.Name, true
		}
		if v, ok := g.subst[x.Name]; ok {
			return v, true
		}
		if g.inOld {
			if n, ok := g.oldNames[x.Name]; ok {
				return n, true
			}
			g.why = "old(" + x.Name + ") has no snapshot"
			return "", false
		}
		if n, ok := g.names[x.Name]; ok {
			return n, true
		}
		g.why = "identifier " + x.Name + " is not a parameter or result"
		return "", false
	case "call":
		switch x.Name {
		case "old":
			if g.inOld {
				return g.expr(x.Args[0])
			}
			g.inOld = true
			r, ok := g.expr(x.Args[0])
			g.inOld = false
			return r, ok
		case "len":
			a, ok := g.expr(x.Args[0])
			if !ok {
				return "", false
			}
			return "int64(len(" + a + "))", true
		case "min", "max":
			a, ok1 := g.expr(x.Args[0])
			b, ok2 := g.expr(x.Args[1])
			if !ok1 || !ok2 {
				return "", false
			}
			return x.Name + "(int64(" + a + "), int64(" + b + "))", true
		}
		// a spec function with a definition: expand it over the compiled arguments
		if g.prog != nil && g.depth < 8 {
			if sf := g.prog.specs.lookupFunc(x.Name, g.pkg); sf != nil && sf.Body != nil && len(sf.Params) == len(x.Args) {
				saved := map[string]string{}
				had := map[string]bool{}
				var vals []string
				for _, a := range x.Args {
					v, ok := g.expr(a)
					if !ok {
						return "", false
					}
					vals = append(vals, v)
				}
				for i, prm := range sf.Params {
					saved[prm.Name], had[prm.Name] = g.subst[prm.Name], false
					if _, h := g.subst[prm.Name]; h {
						had[prm.Name] = true
					}
					g.subst[prm.Name] = "(" + vals[i] + ")"
				}
				g.depth++
				r, ok := g.expr(sf.Body)
				g.depth--
				for _, prm := range sf.Params {
					if had[prm.Name] {
						g.subst[prm.Name] = saved[prm.Name]
					} else {
						delete(g.subst, prm.Name)
					}
				}
				return r, ok
			}
		}
		g.why = "spec function " + x.Name
		return "", false
	case "field":
		if g.inOld {
			g.why = "old() of a field has no snapshot"
			return "", false
		}
		a, ok := g.expr(x.Args[0])
		if !ok {
			return "", false
		}
		if strings.HasPrefix(x.Name, "$") {
			g.why = "pseudo-field " + x.Name
			return "", false
		}
		return a + "." + x.Name, true
	case "index":
		a, ok1 := g.expr(x.Args[0])
		b, ok2 := g.expr(x.Args[1])
		if !ok1 || !ok2 {
			return "", false
		}
		return "int64(" + a + "[" + b + "])", true
	case "ite":
		c, ok0 := g.expr(x.Args[0])
		a, ok1 := g.expr(x.Args[1])
		b, ok2 := g.expr(x.Args[2])
		if !ok0 || !ok1 || !ok2 {
			return "", false
		}
		return "func() int64 { if " + c + " { return int64(" + a + ") }; return int64(" + b + ") }()", true
	case "quant":
		// forall k :: lo <= k && k < hi ==> body
		if x.Op != "forall" || len(x.Binders) != 1 || x.Args[0].Kind != "binary" || x.Args[0].Op != "==>" {
			g.why = "quantifier shape"
			return "", false
		}
		k := x.Binders[0].Name
		guard := x.Args[0].Args[0]
		lo, hi, ok := rangeGuard(guard, k)
		if !ok {
			g.why = "quantifier guard is not a range"
			return "", false
		}
		saved, had := g.names[k]
		savedOld, hadOld := g.oldNames[k]
		g.names[k] = "q_" + k
		g.oldNames[k] = "q_" + k
		los, ok1 := g.expr(lo)
		his, ok2 := g.expr(hi)
		body, ok3 := g.expr(x.Args[0].Args[1])
		if had {
			g.names[k] = saved
		} else {
			delete(g.names, k)
		}
		if hadOld {
			g.oldNames[k] = savedOld
		} else {
			delete(g.oldNames, k)
		}
		if !ok1 || !ok2 || !ok3 {
			return "", false
		}
		return fmt.Sprintf("func() bool { for q_%s := int64(%s); q_%s < int64(%s); q_%s++ { if !(%s) { return false } }; return true }()", k, los, k, his, k, body), true
	case "unary":
		a, ok := g.expr(x.Args[0])
		if !ok {
			return "", false
		}
		return "(" + x.Op + a + ")", true
	case "binary":
		a, ok1 := g.expr(x.Args[0])
		b, ok2 := g.expr(x.Args[1])
		if !ok1 || !ok2 {
			return "", false
		}
		switch x.Op {
		case "==>":
			return "(!(" + a + ") || (" + b + "))", true
		case "<==>":
			return "((" + a + ") == (" + b + "))", true
		case "&&", "||":
			return "(" + a + " " + x.Op + " " + b + ")", true
		case "==", "!=", "<", "<=", ">", ">=":
			if x.Args[0].Kind == "ident" && (x.Args[1].Kind == "ident" && x.Args[1].Name == "nil") ||
				x.Args[1].Kind == "ident" && x.Args[1].Name == "nil" {
				return "(" + a + " " + x.Op + " nil)", true
			}
			return "(int64(" + a + ") " + x.Op + " int64(" + b + "))", true
		case "+", "-", "*", "/", "%":
			return "(int64(" + a + ") " + x.Op + " int64(" + b + "))", true
		}
	}
	g.why = "construct " + x.Kind + " (" + clip(x.Text, 60) + ")"
	return "", false
}

// rangeGuard recognises  lo <= k && k < hi.
func rangeGuard(g *SExpr, k string) (lo, hi *SExpr, ok bool) {
	if g.Kind != "binary" || g.Op != "&&" {
		return nil, nil, false
	}
	a, b := g.Args[0], g.Args[1]
	if a.Kind == "binary" && a.Op == "<=" && a.Args[1].Kind == "ident" && a.Args[1].Name == k &&
		b.Kind == "binary" && b.Op == "<" && b.Args[0].Kind == "ident" && b.Args[0].Name == k {
		return a.Args[0], b.Args[1], true
	}
	return nil, nil, false
}
