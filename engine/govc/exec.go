package govc

import (
	"fmt"
	"go/ast"
	"go/token"
	"go/types"
	"sort"
	"strings"

	"golang.org/x/tools/go/packages"
)

// ---------------------------------------------------------------------------------------------
// Obligations
// ---------------------------------------------------------------------------------------------

type Obligation struct {
	Name  string
	Kind  string
	Func  string
	Tags  []string
	Hyps  []*Term
	Goal  *Term
	Pos   token.Position
	Text  string
	Quant bool
	Entry *entryInfo
	Projected bool    // Model comes from the quantifier-free projection (candidate only)
	ProjHyps  []*Term

	// filled by the solver stage
	Status  string // discharged | failed | unknown
	Backend string
	TimeS   float64
	Model   map[string]string
	Output  string
	Query   string
}

// ---------------------------------------------------------------------------------------------
// Executor
// ---------------------------------------------------------------------------------------------

type ctl int

const (
	ctlNext ctl = iota
	ctlBreak
	ctlContinue
	ctlReturn
	ctlDead // path ended (panic / infeasible)
)

type Outcome struct {
	st    *State
	ctl   ctl
	label string
	frame int
}

type frame struct {
	id      int
	results []*Cell
	sig     *types.Signature
	pkg     *packages.Package
	callPos token.Pos // position of the call that was inlined (0 for the top frame)
	callPkg *packages.Package
	fnName  string
	yield   *yieldBinding
	decl    *ast.FuncDecl
}

type yieldBinding struct {
	obj     types.Object // the yield parameter
	rng     *ast.RangeStmt
	frameIx int // index in e.frames of the frame owning the range statement
}

type deferred struct {
	frame int
	call  *ast.CallExpr
	args  []Value // evaluated at defer time (for non-closure calls)
	fn    Value
	recv  Value
	pkg   *packages.Package
}

type Exec struct {
	prog     *Program
	pkg      *packages.Package
	fn       *types.Func
	decl     *ast.FuncDecl
	lit      *ast.FuncLit // non-nil: the unit under verification is this function literal of decl
	litOrd   int
	contract *Contract
	nm       namer
	cells    map[types.Object]*Cell
	cellSeq  int
	obls     []*Obligation
	oblSeen  map[string]int
	entry    *State
	frames   []*frame
	frameSeq int
	lets     map[string]Value
	tags     []string
	paths    int
	loopIDs  map[*ast.FuncDecl]map[ast.Node]int
	lib      *libModel

	globalsUsed map[string]*types.Var
	globalArrs  map[string]ArrayVal
	warnings    []string
	assumptions map[string]bool
	calleesUsed map[string]bool
	bv          bool
	escaped     []Outcome
	covers      []*Obligation
	entryInf    *entryInfo
	litParams   map[string]*Cell
	curHidden   *Cell
	renamed     map[string]bool
	loopAlias   map[ast.Node]map[string]types.Object // per loop: name in an invariant -> the variable read in its place
	outerHidden *Cell // hidden index of the enclosing range loop ($idxouter)
	altName     string
	lazyCaptures bool
	boxedPtrs   map[string]PtrVal
	boxedVals   map[string]Value
	localMirror map[*Cell]*Term // local struct whose address was boxed into an interface -> mirroring heap object
	altRecv     *Cell // interface value holding the value receiver (body verified against an interface contract)
}

const maxPaths = 4096

func newExec(prog *Program, pk *packages.Package, fn *types.Func, decl *ast.FuncDecl, c *Contract) *Exec {
	e := &Exec{prog: prog, pkg: pk, fn: fn, decl: decl, contract: c, cells: map[types.Object]*Cell{},
		oblSeen: map[string]int{}, lets: map[string]Value{}, loopIDs: map[*ast.FuncDecl]map[ast.Node]int{},
		globalsUsed: map[string]*types.Var{}, globalArrs: map[string]ArrayVal{}, assumptions: map[string]bool{},
		calleesUsed: map[string]bool{}, boxedPtrs: map[string]PtrVal{}, boxedVals: map[string]Value{}, localMirror: map[*Cell]*Term{}, renamed: map[string]bool{}, loopAlias: map[ast.Node]map[string]types.Object{}}
	e.lib = &libModel{}
	if c != nil {
		e.tags = c.Tags
		e.bv = c.Mode == "bv"
	}
	return e
}

func (e *Exec) funcName() string {
	n := e.pkg.Types.Name() + "." + funcKey(e.fn)
	if e.lit != nil {
		n += fmt.Sprintf("$%d", e.litOrd)
	}
	if e.altName != "" {
		n += "@" + e.altName
	}
	return n
}

func (e *Exec) top() *frame { return e.frames[len(e.frames)-1] }

func (e *Exec) curPkg() *packages.Package { return e.top().pkg }

func (e *Exec) info() *types.Info { return e.curPkg().TypesInfo }

func (e *Exec) cellFor(obj types.Object) *Cell {
	if c, ok := e.cells[obj]; ok {
		return c
	}
	e.cellSeq++
	c := &Cell{Name: obj.Name(), Typ: obj.Type(), id: e.cellSeq}
	e.cells[obj] = c
	return c
}

func (e *Exec) newCell(name string, t types.Type) *Cell {
	e.cellSeq++
	return &Cell{Name: name, Typ: t, id: e.cellSeq}
}

func (e *Exec) pos(n ast.Node) token.Position { return e.prog.fset.Position(n.Pos()) }

func (e *Exec) nodeText(n ast.Node) string {
	p1, p2 := e.prog.fset.Position(n.Pos()), e.prog.fset.Position(n.End())
	src := e.prog.source(p1.Filename)
	if src == nil || p1.Offset >= len(src) || p2.Offset > len(src) {
		return ""
	}
	return strings.Join(strings.Fields(string(src[p1.Offset:p2.Offset])), " ")
}

// oblige records a proof obligation: pc(st) ==> goal.
func (e *Exec) oblige(st *State, kind, label string, goal *Term, n ast.Node, tags []string) {
	if goal.isTrue() {
		return
	}
	if st.dead {
		return
	}
	// conjuncts that are literally among the hypotheses need no proof
	if goal.Op == "and" {
		var rest []*Term
		for _, c := range goal.Args {
			if !st.pcset[c.String()] {
				rest = append(rest, c)
			}
		}
		goal = mkAnd(rest...)
		if goal.isTrue() {
			return
		}
	} else if st.pcset[goal.String()] {
		return
	}
	base := fmt.Sprintf("%s#%s:%s", e.funcName(), kind, label)
	e.oblSeen[base]++
	name := fmt.Sprintf("%s#%d", base, e.oblSeen[base])
	if len(tags) == 0 {
		tags = e.tags
	}
	o := &Obligation{Name: name, Kind: kind, Func: e.funcName(), Tags: tags, Hyps: append([]*Term{}, st.pc...), Goal: goal, Entry: e.entryInf}
	if n != nil {
		o.Pos = e.pos(n)
		o.Text = e.nodeText(n)
	}
	e.obls = append(e.obls, o)
}

// cover records a reachability query: the path condition must be satisfiable (vacuity guard).
func (e *Exec) cover(st *State, what string, n ast.Node) {
	if st.dead {
		return
	}
	o := &Obligation{Name: fmt.Sprintf("%s#cover:%s#%d", e.funcName(), what, len(e.covers)+1), Kind: "cover:" + what,
		Func: e.funcName(), Hyps: append([]*Term{}, st.pc...), Goal: tFalse}
	if n != nil {
		o.Pos = e.pos(n)
	}
	e.covers = append(e.covers, o)
}

// safety obligations carry the normalised source text of the checked expression.
func (e *Exec) safety(st *State, kind string, goal *Term, n ast.Node) {
	if goal.isTrue() {
		return
	}
	label := ""
	if n != nil {
		label = shortText(e.nodeText(n))
	}
	// run-time-failure obligations belong to the crash-freedom property (C04) unless the contract
	// names further properties whose statement includes "never panics"
	tags := []string{"C04"}
	if e.contract != nil && len(e.contract.SafetyTags) > 0 {
		tags = e.contract.SafetyTags
	}
	if kind == "overflow" {
		// not a run-time failure: it justifies treating machine arithmetic as mathematical, which
		// every clause of this function relies on
		tags = nil
	}
	e.oblige(st, kind, label, goal, n, tags)
}

// ---------------------------------------------------------------------------------------------
// Verifying one function against its contract
// ---------------------------------------------------------------------------------------------

type FuncResult struct {
	Name        string
	Obls        []*Obligation
	Unsupported string
	Paths       int
	Warnings    []string
	Assumptions []string
	Callees     []string
	Trusted     bool
	Tags        []string // the function's own property tags
	Covers      []*Obligation
}

type target struct {
	fn  *types.Func
	lit int
	alt *Contract // verify the body against this contract instead (interface contract it implements)
	altName string
}

func (prog *Program) verifyFunc(tg target) (res *FuncResult) {
	fn := tg.fn
	pk := prog.declPkg[fn]
	decl := prog.decls[fn]
	c := prog.contractFor(fn)
	var lit *ast.FuncLit
	if tg.lit > 0 {
		lit = prog.funcLitByOrdinal(decl, tg.lit)
		if lit == nil {
			panic(ContractError{fmt.Sprintf("function literal %s$%d not found", funcKey(fn), tg.lit)})
		}
		c, _ = prog.closureContract(lit)
	}
	if tg.alt != nil {
		// the interface contract replaces requires/ensures/modifies; proof hints (loop invariants,
		// wrap-around declarations, allocation bound, case splits) stay those of the implementation
		merged := *tg.alt
		if c != nil {
			merged.Loops, merged.WrapOK, merged.Alloc, merged.Cases = c.Loops, c.WrapOK, c.Alloc, c.Cases
			merged.Lets = append(append([]LetDef{}, merged.Lets...), c.Lets...)
			merged.Anys = append(append([]binder{}, merged.Anys...), c.Anys...)
			merged.SafetyTags = c.SafetyTags
		}
		merged.AltPkg = tg.alt.Pkg
		c = &merged
	}
	e := newExec(prog, pk, fn, decl, c)
	e.lit, e.litOrd = lit, tg.lit
	e.altName = tg.altName
	res = &FuncResult{Name: e.funcName()}
	if c != nil {
		res.Tags = c.Tags
	}
	if c != nil && c.Trusted {
		res.Trusted = true
		return res
	}
	defer func() {
		if r := recover(); r != nil {
			switch x := r.(type) {
			case unsupportedErr:
				res.Unsupported = x.msg
				res.Obls = nil
			case ContractError:
				panic(x)
			default:
				panic(r)
			}
		}
		res.Paths = e.paths
		res.Warnings = e.warnings
		for a := range e.assumptions {
			res.Assumptions = append(res.Assumptions, a)
		}
		sort.Strings(res.Assumptions)
		for a := range e.calleesUsed {
			res.Callees = append(res.Callees, a)
		}
		sort.Strings(res.Callees)
	}()
	if decl.Body == nil {
		panic(unsupported("function without body"))
	}
	if lit != nil {
		e.runLit()
	} else {
		e.run()
	}
	res.Obls = e.obls
	res.Covers = e.covers
	return res
}

func (e *Exec) run() {
	st := newState()
	sig := e.fn.Type().(*types.Signature)
	fr := &frame{id: 0, sig: sig, pkg: e.pkg, fnName: e.funcName(), decl: e.decl}
	e.frames = []*frame{fr}
	// allocation counter
	st.assume(mkGe(st.ghostVar(allocGhost, SInt), tZero))
	// receiver and parameters
	e.entryInf = &entryInfo{pkg: e.pkg, fn: e.fn, c: e.contract}
	bind := func(v *types.Var, fallback string, isRecv bool) *Cell {
		name := v.Name()
		if name == "" || name == "_" {
			name = fallback
		}
		c := e.cellFor(v)
		c.Name = name
		st.store[c] = e.symbolicValue(st, v.Type(), name)
		e.assumeTypeInv(st, st.store[c])
		e.entryInf.vals = append(e.entryInf.vals, entryVal{Name: name, Recv: isRecv, Typ: v.Type(), Val: st.store[c]})
		return c
	}
	if r := sig.Recv(); r != nil {
		rc := bind(r, "recv", true)
		if e.altName != "" {
			if _, isPtr := r.Type().Underlying().(*types.Pointer); isPtr {
				// the interface value holds this pointer: its dynamic type is the receiver's type
				rt := asTerm(st.store[rc])
				st.assume(mkImplies(mkNe(rt, tZero), mkEq(dynType(rt), typeIdTerm(r.Type()))))
			}
			if _, isPtr := r.Type().Underlying().(*types.Pointer); !isPtr {
				// value receiver verified against an interface contract: `recv` there is the interface
				// value holding a copy of the receiver
				switch reprOf(r.Type()) {
				case rStruct, rSlice:
					// the interface may hold the value itself or a pointer to it (both method sets contain
					// a value-receiver method): the dynamic type is T or *T, the object's fields are the receiver's
					bc := e.newCell("recv$boxed", types.NewInterfaceType(nil, nil))
					ref := e.freshRef(st, "recvbox")
					if interiorTypes[typeKey(r.Type())] {
						// objects of an interior type live in backing arrays: a one-element array holds the copy
						ml := &MemLoc{Fam: memFamily(r.Type()), Arr: ref, Idx: tZero, Typ: r.Type()}
						e.storeLoc(st, ml, st.store[rc])
						ref = ptrTerm(ml)
					} else {
						e.storeLoc(st, &HeapLoc{Fam: heapFamily(r.Type()), Ref: ref, Typ: r.Type()}, st.store[rc])
					}
					st.assume(mkOr(mkEq(dynType(ref), typeIdTerm(r.Type())), mkEq(dynType(ref), typeIdTerm(types.NewPointer(r.Type())))))
					st.store[bc] = Scalar{ref, types.NewInterfaceType(nil, nil)}
					e.altRecv = bc
				}
			}
		}
	}
	for i := 0; i < sig.Params().Len(); i++ {
		bind(sig.Params().At(i), fmt.Sprintf("p%d", i), false)
	}
	for i := 0; i < sig.Results().Len(); i++ {
		rv := sig.Results().At(i)
		var c *Cell
		if rv.Name() != "" && rv.Name() != "_" {
			c = e.cellFor(rv)
		} else {
			c = e.newCell(fmt.Sprintf("ret%d", i), rv.Type())
		}
		st.store[c] = e.zeroValue(st, rv.Type())
		fr.results = append(fr.results, c)
	}
	e.entry = st.clone()
	// lets and preconditions
	if e.contract != nil {
		for _, a := range e.contract.Anys {
			e.lets[a.Name] = wrapTerm(e.nm.fresh("any!"+a.Name, specSort(a.Type)))
		}
		env := e.funcEnv(st, e.entry)
		for _, l := range e.contract.Lets {
			env.what = e.funcName() + " let " + l.Name
			e.lets[l.Name] = env.eval(l.Expr)
			env.vars[l.Name] = e.lets[l.Name]
		}
		for _, r := range e.contract.Requires {
			env.what = e.funcName() + " requires"
			st.assume(env.evalBool(r.Expr))
		}
		e.entry = st.clone()
	}
	starts := []*State{st}
	if e.contract != nil {
		for _, cs := range e.contract.Cases {
			var next []*State
			for _, s0 := range starts {
				env := e.funcEnv(s0, e.entry)
				env.what = e.funcName() + " cases"
				x := env.evalInt(cs.Expr)
				var none []*Term
				for _, ve := range cs.Values {
					v := env.evalInt(ve)
					c := s0.clone()
					c.assume(mkEq(x, v))
					none = append(none, mkNe(x, v))
					// write the constant back so that later loads of the location fold to it
					func() {
						defer func() {
							if r := recover(); r != nil {
								if _, ok := r.(ContractError); !ok {
									panic(r)
								}
							}
						}()
						cenv := e.funcEnv(c, e.entry)
						cenv.what = e.funcName() + " cases"
						loc, lt := e.modLoc(cenv, cs.Expr)
						if reprOf(lt) == rInt {
							e.storeLoc(c, loc, Scalar{v, lt})
						}
					}()
					if !c.dead {
						next = append(next, c)
					}
				}
				rest := s0.clone()
				rest.assume(mkAnd(none...))
				if !rest.dead {
					next = append(next, rest)
				}
			}
			starts = next
		}
	}
	for _, s0 := range starts {
		outs := e.execBlock(s0, e.decl.Body.List)
		for _, o := range outs {
			switch o.ctl {
			case ctlNext:
				// fell off the end: implicit return
				e.doReturn(o.st, nil, e.decl.Body)
			case ctlBreak, ctlContinue:
				panic(unsupported("stray break/continue"))
			}
		}
	}
}

// runLit verifies a function literal against its contract "Decl$k". Captured variables are bound
// lazily to unconstrained values of their types.
func (e *Exec) runLit() {
	st := newState()
	sig := e.pkg.TypesInfo.TypeOf(e.lit).(*types.Signature)
	fr := &frame{id: 0, sig: sig, pkg: e.pkg, fnName: e.funcName(), decl: e.decl}
	e.frames = []*frame{fr}
	st.assume(mkGe(st.ghostVar(allocGhost, SInt), tZero))
	e.entryInf = nil
	e.litParams = map[string]*Cell{}
	i := 0
	for _, fld := range e.lit.Type.Params.List {
		for _, nm := range fld.Names {
			obj := e.pkg.TypesInfo.Defs[nm]
			c := e.cellFor(obj)
			st.store[c] = e.symbolicValue(st, obj.Type(), nm.Name)
			n := nm.Name
			if e.contract != nil && i < len(e.contract.Params) {
				n = e.contract.Params[i]
			}
			e.litParams[n] = c
			i++
		}
	}
	for k := 0; k < sig.Results().Len(); k++ {
		rv := sig.Results().At(k)
		var c *Cell
		if rv.Name() != "" && rv.Name() != "_" {
			c = e.cellFor(rv)
		} else {
			c = e.newCell(fmt.Sprintf("ret%d", k), rv.Type())
		}
		st.store[c] = e.zeroValue(st, rv.Type())
		fr.results = append(fr.results, c)
	}
	e.lazyCaptures = true
	// bind captured variables before the entry snapshot so that old(x) is available for them
	ast.Inspect(e.lit.Body, func(n ast.Node) bool {
		id, ok := n.(*ast.Ident)
		if !ok {
			return true
		}
		v, ok := e.pkg.TypesInfo.Uses[id].(*types.Var)
		if !ok || v.IsField() || v.Pkg() == nil || v.Parent() == v.Pkg().Scope() {
			return true
		}
		if v.Pos() >= e.lit.Pos() && v.Pos() <= e.lit.End() {
			return true
		}
		if _, bound := e.cells[v]; bound {
			return true
		}
		c := e.cellFor(v)
		func() {
			defer func() {
				if r := recover(); r != nil {
					if _, isU := r.(unsupportedErr); !isU {
						panic(r)
					}
					delete(e.cells, v)
				}
			}()
			st.store[c] = e.symbolicValue(st, v.Type(), v.Name())
			e.litParams[v.Name()] = c
		}()
		return true
	})
	e.entry = st.clone()
	if e.contract != nil {
		env := e.funcEnv(st, e.entry)
		for _, r := range e.contract.Requires {
			env.what = e.funcName() + " requires"
			st.assume(env.evalBool(r.Expr))
		}
		e.entry = st.clone()
	}
	outs := e.execBlock(st, e.lit.Body.List)
	for _, o := range outs {
		if o.ctl == ctlNext {
			e.doReturn(o.st, nil, e.lit.Body)
		}
	}
}

// funcEnv builds the spec environment of the function under verification in state st.
func (e *Exec) funcEnv(st, old *State) *SpecEnv {
	env := &SpecEnv{e: e, st: st, old: old, vars: map[string]Value{}, pkg: e.pkg.Types, what: e.funcName()}
	if e.contract != nil {
		env.altPkg = e.contract.AltPkg
	}
	for k, v := range e.lets {
		env.vars[k] = v
	}
	fr := e.frames[0]
	sig := fr.sig
	names := e.paramNames(sig, e.contract)
	if e.lit != nil {
		names = map[string]*Cell{}
		for k, c := range e.litParams {
			names[k] = c
		}
	}
	env.goName = func(name string, s *State) (Value, bool) {
		if c, ok := names[name]; ok {
			if v, ok := s.store[c]; ok {
				return v, true
			}
		}
		return nil, false
	}
	// results
	resNames := e.resultNames(sig, e.contract)
	for i, c := range fr.results {
		cc := c
		names[resNames[i]] = cc
		if len(fr.results) == 1 {
			names["result"] = cc
		}
	}
	return env
}

func (e *Exec) paramNames(sig *types.Signature, c *Contract) map[string]*Cell {
	names := map[string]*Cell{}
	if r := sig.Recv(); r != nil {
		n := r.Name()
		if c != nil && c.Recv != "" {
			n = c.Recv
		}
		if n == "" || n == "_" {
			n = "recv"
		}
		names[n] = e.cellFor(r)
		names["recv"] = e.cellFor(r)
		if e.altRecv != nil && c != nil && c == e.contract {
			names["recv"] = e.altRecv
		}
	}
	for i := 0; i < sig.Params().Len(); i++ {
		p := sig.Params().At(i)
		n := p.Name()
		if c != nil && i < len(c.Params) {
			n = c.Params[i]
		}
		if n == "" || n == "_" {
			n = fmt.Sprintf("p%d", i)
		}
		names[n] = e.cellFor(p)
		if pn := p.Name(); pn != "" && pn != "_" {
			if _, taken := names[pn]; !taken {
				names[pn] = e.cellFor(p) // the declaration's own name stays usable (merged proof hints)
			}
		}
	}
	return names
}

func (e *Exec) resultNames(sig *types.Signature, c *Contract) []string {
	var out []string
	for i := 0; i < sig.Results().Len(); i++ {
		n := sig.Results().At(i).Name()
		if c != nil && i < len(c.Results) {
			n = c.Results[i]
		}
		if n == "" || n == "_" {
			n = fmt.Sprintf("ret%d", i)
		}
		out = append(out, n)
	}
	return out
}

// doReturn: results are already stored in the frame's result cells. Runs defers of the top
// frame and, for the outermost frame, emits the postcondition obligations.
func (e *Exec) doReturn(st *State, _ []Value, n ast.Node) []Outcome {
	fr := e.top()
	states := e.runDefers(st, fr)
	var outs []Outcome
	for _, s := range states {
		if fr.id == 0 {
			e.paths++
			if e.paths > maxPaths {
				panic(unsupported("path limit exceeded"))
			}
			e.cover(s, "return", n)
			e.checkPost(s, n)
			outs = append(outs, Outcome{st: s, ctl: ctlDead})
		} else {
			outs = append(outs, Outcome{st: s, ctl: ctlReturn, frame: fr.id})
		}
	}
	return outs
}

func (e *Exec) checkPost(st *State, n ast.Node) {
	if e.contract == nil {
		return
	}
	// ghost updates declared by the contract are ghost code executed at return
	if len(e.contract.Ghosts) > 0 {
		genv := e.funcEnv(st, e.entry)
		for _, u := range e.contract.Ghosts {
			genv.what = e.funcName() + " update " + u.Name
			st.ghost[u.Name] = specTerm(genv.eval(u.Expr))
		}
	}
	env := e.funcEnv(st, e.entry)
	// parameters in postconditions denote their values at entry (they may be reassigned in the body)
	if e.lit == nil {
		params := e.paramNames(e.frames[0].sig, e.contract)
		base := env.goName
		env.goName = func(name string, s *State) (Value, bool) {
			if c, ok := params[name]; ok {
				if v, ok := e.entry.store[c]; ok {
					return v, true
				}
			}
			return base(name, s)
		}
	}
	for _, en := range e.contract.Ensures {
		if hasTag(en.Tags, "ASSUMED") {
			// a clause the body is not checked against: callers rely on it, the evidence lists it
			e.assumptions["ASSUMED clause of "+e.funcName()+": @"+en.Label] = true
			continue
		}
		env.what = e.funcName() + " ensures @" + en.Label
		g := env.evalBool(en.Expr)
		e.oblige(st, "post", en.Label, g, n, en.Tags)
	}
	e.checkFrame(st, n)
}

// checkFrame: every heap / memory / ghost location that existed at entry and is not named by
// `modifies` is unchanged at return.
func (e *Exec) checkFrame(st *State, n ast.Node) {
	env := e.funcEnv(e.entry, e.entry)
	env.what = e.funcName() + " modifies"
	targets := e.modTargets(env, e.contract.Modifies)
	if len(e.contract.OwnMemory) > 0 {
		targets = append(targets, e.modTargets(env, e.contract.OwnMemory)...)
		e.assumptions["ASSUMED frame of "+e.funcName()+": the memory families listed under ownmemory are written only in objects allocated by the call (callers are told they do not change)"] = true
	}
	for _, u := range e.contract.Ghosts {
		if g, ok := e.prog.specs.Ghosts[u.Name]; ok {
			targets = append(targets, modTarget{kind: "ghost", name: u.Name, keys: []leafKey{{u.Name, specSort(g.Type)}}})
		}
	}
	allowed := map[string][]*Term{} // kind+key -> roots (nil entry: whole family)
	elems := map[string][][2]*Term{} // mem: (array, element) pairs
	whole := map[string]bool{}
	for _, t := range targets {
		for _, k := range t.keys {
			id := t.kind + ":" + k.key
			if t.root == nil {
				whole[id] = true
			} else if t.elem != nil {
				elems[id] = append(elems[id], [2]*Term{t.root, t.elem})
			} else {
				allowed[id] = append(allowed[id], t.root)
			}
		}
	}
	alloc0 := e.entry.ghostVar(allocGhost, SInt)
	check := func(kind, key string, now, was *Term) {
		id := kind + ":" + key
		if whole[id] || termEq(now, was) {
			return
		}
		x := mkVar("x!frame", SInt)
		conds := []*Term{mkLe(tZero, x), mkLe(x, alloc0)}
		if kind == "ghost" {
			// ghost maps are keyed by references: entries of objects allocated during the call are free
			conds = []*Term{mkLe(x, alloc0)}
		}
		if kind == "mem" {
			// array 0 is the backing array of nil slices: it has no elements, so nothing can be read from it
			conds = []*Term{mkLt(tZero, x), mkLe(x, alloc0)}
		}
		for _, r := range allowed[id] {
			conds = append(conds, mkNe(x, r))
		}
		if now.Sort.Kind != KArray {
			e.oblige(st, "frame", kind+":"+key, mkEq(now, was), n, nil)
			return
		}
		for _, pr := range elems[id] {
			conds = append(conds, mkNe(x, pr[0]))
		}
		g := mkForall([]*Term{x}, mkImplies(mkAnd(conds...), mkEq(mkSelect(now, x), mkSelect(was, x))))
		e.oblige(st, "frame", kind+":"+key, g, n, nil)
		// arrays with single-element permissions: every other element is unchanged
		for _, pr := range elems[id] {
			y := mkVar("y!frame", SInt)
			var cs []*Term
			for _, q := range elems[id] {
				cs = append(cs, mkOr(mkNe(pr[0], q[0]), mkNe(y, q[1])))
			}
			for _, r := range allowed[id] {
				cs = append(cs, mkNe(pr[0], r))
			}
			g2 := mkForall([]*Term{y}, mkImplies(mkAnd(cs...), mkEq(mkSelect(mkSelect(now, pr[0]), y), mkSelect(mkSelect(was, pr[0]), y))))
			e.oblige(st, "frame", kind+":"+key+"[elem]", g2, n, nil)
		}
	}
	for k, now := range st.heap {
		check("heap", k, now, e.entry.heapMap(k, now.Sort.Elem))
	}
	for k, now := range st.mem {
		check("mem", k, now, e.entry.memMap(k, now.Sort.Elem.Elem))
	}
	for k, now := range st.ghost {
		if k == allocGhost {
			continue
		}
		if g, ok := e.prog.specs.Ghosts[k]; ok && g.Log {
			continue
		}
		check("ghost", k, now, e.entry.ghostVar(k, now.Sort))
	}
}

func (e *Exec) runDefers(st *State, fr *frame) []*State {
	states := []*State{st}
	for {
		// find last deferred of this frame
		idx := -1
		for i := len(states[0].defers) - 1; i >= 0; i-- {
			if states[0].defers[i].frame == fr.id {
				idx = i
				break
			}
		}
		if idx < 0 {
			return states
		}
		var next []*State
		for _, s := range states {
			d := s.defers[idx]
			s.defers = append(append([]*deferred{}, s.defers[:idx]...), s.defers[idx+1:]...)
			for _, o := range e.execDeferred(s, d) {
				if o.ctl == ctlDead {
					continue
				}
				next = append(next, o.st)
			}
		}
		if len(next) == 0 {
			return nil
		}
		states = next
	}
}

// ---------------------------------------------------------------------------------------------
// Statements
// ---------------------------------------------------------------------------------------------

func (e *Exec) execBlock(st *State, stmts []ast.Stmt) []Outcome {
	cur := []*State{st}
	var done []Outcome
	for _, s := range stmts {
		var next []*State
		for _, c := range cur {
			if c.dead {
				continue
			}
			for _, o := range e.execStmt(c, s) {
				if o.ctl == ctlNext {
					next = append(next, o.st)
				} else if o.ctl != ctlDead {
					done = append(done, o)
				}
			}
		}
		cur = next
		if len(cur) == 0 {
			break
		}
		if len(cur)+len(done) > maxPaths {
			panic(unsupported("path limit exceeded"))
		}
	}
	for _, c := range cur {
		done = append(done, Outcome{st: c, ctl: ctlNext})
	}
	return done
}

func one(st *State) []Outcome { return []Outcome{{st: st, ctl: ctlNext}} }

// execStmt executes one statement. Calls of contract-less module functions nested inside the statement's
// expressions are executed in place first (they may fork), in evaluation order; their values are then picked up
// by evalCall through State.pre.
func (e *Exec) execStmt(st *State, s ast.Stmt) []Outcome {
	hoisted := e.nestedInlineCalls(st, s)
	if len(hoisted) == 0 {
		return e.execStmt1(st, s)
	}
	cur := []*State{st}
	for _, call := range hoisted {
		var next []*State
		for _, c := range cur {
			inl := e.inlineTarget(c, call)
			if inl == nil {
				next = append(next, c)
				continue
			}
			for _, r := range e.inlineCall(c, call, inl) {
				if r.st.pre == nil {
					r.st.pre = map[*ast.CallExpr]Value{}
				}
				r.st.pre[call] = r.v
				next = append(next, r.st)
			}
		}
		cur = next
	}
	var outs []Outcome
	for _, c := range cur {
		for _, o := range e.execStmt1(c, s) {
			for _, call := range hoisted {
				delete(o.st.pre, call)
			}
			outs = append(outs, o)
		}
	}
	return outs
}

// nestedInlineCalls lists, innermost first, the calls executed in place that sit strictly inside the expressions
// of a simple statement (not under && / || right operands or function literals, whose evaluation is conditional).
func (e *Exec) nestedInlineCalls(st *State, s ast.Stmt) []*ast.CallExpr {
	var tops []ast.Expr
	switch x := s.(type) {
	case *ast.ExprStmt:
		tops = []ast.Expr{x.X}
	case *ast.AssignStmt:
		tops = append(tops, x.Rhs...)
		for _, l := range x.Lhs {
			if _, isId := ast.Unparen(l).(*ast.Ident); !isId {
				tops = append(tops, l)
			}
		}
	case *ast.ReturnStmt:
		tops = x.Results
	case *ast.DeclStmt:
		if gd, ok := x.Decl.(*ast.GenDecl); ok && gd.Tok == token.VAR {
			for _, sp := range gd.Specs {
				if vs, ok := sp.(*ast.ValueSpec); ok {
					tops = append(tops, vs.Values...)
				}
			}
		}
	default:
		return nil
	}
	var out []*ast.CallExpr
	var walk func(n ast.Expr, top bool)
	walk = func(n ast.Expr, top bool) {
		switch y := n.(type) {
		case nil:
		case *ast.ParenExpr:
			walk(y.X, top)
		case *ast.CallExpr:
			walk(y.Fun, false)
			for _, a := range y.Args {
				walk(a, false)
			}
			if !top {
				if tv, ok := e.info().Types[y.Fun]; ok && tv.IsType() {
					return
				}
				if e.inlineTarget(st, y) != nil {
					out = append(out, y)
				}
			}
		case *ast.SelectorExpr:
			walk(y.X, false)
		case *ast.StarExpr:
			walk(y.X, false)
		case *ast.UnaryExpr:
			walk(y.X, false)
		case *ast.BinaryExpr:
			walk(y.X, false)
			if y.Op != token.LAND && y.Op != token.LOR {
				walk(y.Y, false)
			}
		case *ast.IndexExpr:
			walk(y.X, false)
			walk(y.Index, false)
		case *ast.SliceExpr:
			walk(y.X, false)
			walk(y.Low, false)
			walk(y.High, false)
			walk(y.Max, false)
		case *ast.TypeAssertExpr:
			walk(y.X, false)
		case *ast.CompositeLit:
			for _, el := range y.Elts {
				if kv, ok := el.(*ast.KeyValueExpr); ok {
					walk(kv.Value, false)
				} else {
					walk(el, false)
				}
			}
		}
	}
	for _, t := range tops {
		walk(t, true)
	}
	return out
}

func (e *Exec) execStmt1(st *State, s ast.Stmt) []Outcome {
	switch x := s.(type) {
	case *ast.BlockStmt:
		return e.execBlock(st, x.List)
	case *ast.EmptyStmt:
		return one(st)
	case *ast.ExprStmt:
		return e.execExprStmt(st, x.X)
	case *ast.DeclStmt:
		gd, ok := x.Decl.(*ast.GenDecl)
		if !ok {
			panic(unsupported("declaration statement"))
		}
		if gd.Tok == token.CONST || gd.Tok == token.TYPE {
			return one(st)
		}
		cur := []*State{st}
		for _, sp := range gd.Specs {
			vs := sp.(*ast.ValueSpec)
			var next []*State
			for _, c := range cur {
				next = append(next, e.execVarSpec(c, vs)...)
			}
			cur = next
		}
		var outs []Outcome
		for _, c := range cur {
			outs = append(outs, Outcome{st: c, ctl: ctlNext})
		}
		return outs
	case *ast.AssignStmt:
		return e.execAssign(st, x)
	case *ast.IncDecStmt:
		loc := e.lvalue(st, x.X)
		old := e.loadLoc(st, loc)
		t := x.X
		one1 := Scalar{tOne, e.info().TypeOf(t)}
		op := token.ADD
		if x.Tok == token.DEC {
			op = token.SUB
		}
		nv := e.arith(st, op, old, one1, e.info().TypeOf(t), x)
		e.storeLoc(st, loc, nv)
		return one(st)
	case *ast.IfStmt:
		return e.execIf(st, x)
	case *ast.ForStmt:
		return e.execFor(st, x, "")
	case *ast.RangeStmt:
		return e.execRange(st, x, "")
	case *ast.LabeledStmt:
		switch in := x.Stmt.(type) {
		case *ast.ForStmt:
			return e.execFor(st, in, x.Label.Name)
		case *ast.RangeStmt:
			return e.execRange(st, in, x.Label.Name)
		}
		return e.execStmt(st, x.Stmt)
	case *ast.SwitchStmt:
		return e.execSwitch(st, x)
	case *ast.TypeSwitchStmt:
		return e.execTypeSwitch(st, x)
	case *ast.BranchStmt:
		lbl := ""
		if x.Label != nil {
			lbl = x.Label.Name
		}
		switch x.Tok {
		case token.BREAK:
			return []Outcome{{st: st, ctl: ctlBreak, label: lbl}}
		case token.CONTINUE:
			return []Outcome{{st: st, ctl: ctlContinue, label: lbl}}
		}
		panic(unsupported("branch statement " + x.Tok.String()))
	case *ast.ReturnStmt:
		return e.execReturn(st, x)
	case *ast.DeferStmt:
		return e.execDefer(st, x)
	case *ast.GoStmt:
		panic(unsupported("go statement"))
	case *ast.SelectStmt, *ast.SendStmt:
		panic(unsupported("channel operation"))
	}
	panic(unsupported(fmt.Sprintf("statement %T", s)))
}

func (e *Exec) execVarSpec(st *State, vs *ast.ValueSpec) []*State {
	if len(vs.Values) == 0 {
		for _, n := range vs.Names {
			if n.Name == "_" {
				continue
			}
			obj := e.info().Defs[n]
			st.store[e.cellFor(obj)] = e.zeroValue(st, obj.Type())
		}
		return []*State{st}
	}
	if len(vs.Values) == len(vs.Names) {
		cur := []*State{st}
		for i, n := range vs.Names {
			var next []*State
			for _, c := range cur {
				for _, r := range e.evalForking(c, vs.Values[i]) {
					if n.Name != "_" {
						obj := e.info().Defs[n]
						r.st.store[e.cellFor(obj)] = e.convertAssign(r.st, r.v, obj.Type())
					}
					next = append(next, r.st)
				}
			}
			cur = next
		}
		return cur
	}
	// var a, b = f()
	var out []*State
	for _, r := range e.evalForking(st, vs.Values[0]) {
		tv, ok := r.v.(TupleVal)
		if !ok || len(tv.Vals) != len(vs.Names) {
			panic(unsupported("tuple var spec"))
		}
		for i, n := range vs.Names {
			if n.Name == "_" {
				continue
			}
			obj := e.info().Defs[n]
			r.st.store[e.cellFor(obj)] = e.convertAssign(r.st, tv.Vals[i], obj.Type())
		}
		out = append(out, r.st)
	}
	return out
}

type stVal struct {
	st *State
	v  Value
}

// evalForking evaluates an expression that may be a call to an inlined function (which forks).
func (e *Exec) evalForking(st *State, x ast.Expr) []stVal {
	if call, ok := ast.Unparen(x).(*ast.CallExpr); ok {
		if v, ok := st.pre[call]; ok {
			return []stVal{{st, v}}
		}
		if inl := e.inlineTarget(st, call); inl != nil {
			return e.inlineCall(st, call, inl)
		}
	}
	return []stVal{{st, e.eval(st, x)}}
}

func (e *Exec) execExprStmt(st *State, x ast.Expr) []Outcome {
	if call, ok := ast.Unparen(x).(*ast.CallExpr); ok {
		if id, ok := ast.Unparen(call.Fun).(*ast.Ident); ok && id.Name == "panic" {
			if _, isBuiltin := e.info().Uses[id].(*types.Builtin); isBuiltin {
				e.safety(st, "unreachable", tFalse, call)
				return []Outcome{{st: st, ctl: ctlDead}}
			}
		}
	}
	var outs []Outcome
	for _, r := range e.evalForking(st, x) {
		outs = append(outs, Outcome{st: r.st, ctl: ctlNext})
	}
	return outs
}

func (e *Exec) execAssign(st *State, x *ast.AssignStmt) []Outcome {
	info := e.info()
	if x.Tok != token.ASSIGN && x.Tok != token.DEFINE {
		// op=
		if len(x.Lhs) != 1 {
			panic(unsupported("multi op-assign"))
		}
		loc := e.lvalue(st, x.Lhs[0])
		old := e.loadLoc(st, loc)
		rhs := e.eval(st, x.Rhs[0])
		var op token.Token
		switch x.Tok {
		case token.ADD_ASSIGN:
			op = token.ADD
		case token.SUB_ASSIGN:
			op = token.SUB
		case token.MUL_ASSIGN:
			op = token.MUL
		case token.QUO_ASSIGN:
			op = token.QUO
		case token.REM_ASSIGN:
			op = token.REM
		case token.AND_ASSIGN:
			op = token.AND
		case token.OR_ASSIGN:
			op = token.OR
		case token.XOR_ASSIGN:
			op = token.XOR
		case token.AND_NOT_ASSIGN:
			op = token.AND_NOT
		case token.SHL_ASSIGN:
			op = token.SHL
		case token.SHR_ASSIGN:
			op = token.SHR
		default:
			panic(unsupported("assignment operator " + x.Tok.String()))
		}
		lt := info.TypeOf(x.Lhs[0])
		var nv Value
		if reprOf(lt) == rString && op == token.ADD {
			nv = Scalar{e.concat(st, asTerm(old), asTerm(rhs)), lt}
		} else {
			nv = e.arith(st, op, old, rhs, lt, x)
		}
		e.storeLoc(st, loc, nv)
		return one(st)
	}
	assignTo := func(s *State, lhs ast.Expr, v Value) {
		v = e.nameValue(s, v, lhs)
		if id, ok := lhs.(*ast.Ident); ok {
			if id.Name == "_" {
				return
			}
			if x.Tok == token.DEFINE {
				if obj := info.Defs[id]; obj != nil {
					s.store[e.cellFor(obj)] = e.convertAssign(s, v, obj.Type())
					return
				}
			}
		}
		loc := e.lvalue(s, lhs)
		e.storeLoc(s, loc, e.convertAssign(s, v, loc.ltype()))
	}
	if len(x.Lhs) == len(x.Rhs) {
		if len(x.Lhs) == 1 {
			var outs []Outcome
			for _, r := range e.evalForking(st, x.Rhs[0]) {
				assignTo(r.st, x.Lhs[0], r.v)
				outs = append(outs, Outcome{st: r.st, ctl: ctlNext})
			}
			return outs
		}
		// parallel assignment: evaluate all RHS first
		var vals []Value
		for _, r := range x.Rhs {
			vals = append(vals, e.eval(st, r))
		}
		for i, l := range x.Lhs {
			assignTo(st, l, vals[i])
		}
		return one(st)
	}
	if len(x.Rhs) != 1 {
		panic(unsupported("assignment shape"))
	}
	var outs []Outcome
	for _, r := range e.evalForking(st, x.Rhs[0]) {
		tv, ok := r.v.(TupleVal)
		if !ok || len(tv.Vals) != len(x.Lhs) {
			panic(unsupported(fmt.Sprintf("tuple assignment from %T", r.v)))
		}
		for i, l := range x.Lhs {
			assignTo(r.st, l, tv.Vals[i])
		}
		outs = append(outs, Outcome{st: r.st, ctl: ctlNext})
	}
	return outs
}

// fork splits st on cond. Either result may be nil when syntactically infeasible.
func (e *Exec) fork(st *State, cond *Term) (*State, *State) {
	if cond.isTrue() {
		return st, nil
	}
	if cond.isFalse() {
		return nil, st
	}
	t := st
	f := st.clone()
	t.assume(cond)
	f.assume(mkNot(cond))
	if t.dead {
		t = nil
	}
	if f.dead {
		f = nil
	}
	return t, f
}

func (e *Exec) execIf(st *State, x *ast.IfStmt) []Outcome {
	states := []*State{st}
	if x.Init != nil {
		states = nil
		for _, o := range e.execStmt(st, x.Init) {
			if o.ctl != ctlNext {
				panic(unsupported("control flow in if-init"))
			}
			states = append(states, o.st)
		}
	}
	var outs []Outcome
	for _, s := range states {
		// yield pattern: if !yield(v) { return }
		if yo := e.yieldCond(s, x); yo != nil {
			outs = append(outs, yo...)
			continue
		}
		c := asTerm(e.eval(s, x.Cond))
		t, f := e.fork(s, c)
		if t != nil {
			outs = append(outs, e.execBlock(t, x.Body.List)...)
		}
		if f != nil {
			if x.Else != nil {
				outs = append(outs, e.execStmt(f, x.Else)...)
			} else {
				outs = append(outs, Outcome{st: f, ctl: ctlNext})
			}
		}
	}
	return outs
}

func (e *Exec) execSwitch(st *State, x *ast.SwitchStmt) []Outcome {
	states := []*State{st}
	if x.Init != nil {
		states = nil
		for _, o := range e.execStmt(st, x.Init) {
			if o.ctl != ctlNext {
				panic(unsupported("control flow in switch-init"))
			}
			states = append(states, o.st)
		}
	}
	var outs []Outcome
	for _, s0 := range states {
		var tag Value
		if x.Tag != nil {
			tag = e.eval(s0, x.Tag)
		}
		cur := s0
		var deflt *ast.CaseClause
		for _, cc := range x.Body.List {
			clause := cc.(*ast.CaseClause)
			if clause.List == nil {
				deflt = clause
				continue
			}
			if cur == nil {
				break
			}
			var conds []*Term
			for _, ce := range clause.List {
				if tag != nil {
					conds = append(conds, e.equalValues(cur, tag, e.eval(cur, ce), ce))
				} else {
					conds = append(conds, asTerm(e.eval(cur, ce)))
				}
			}
			t, f := e.fork(cur, mkOr(conds...))
			if t != nil {
				outs = append(outs, e.switchBody(t, clause)...)
			}
			cur = f
		}
		if cur != nil {
			if deflt != nil {
				outs = append(outs, e.switchBody(cur, deflt)...)
			} else {
				outs = append(outs, Outcome{st: cur, ctl: ctlNext})
			}
		}
	}
	return outs
}

func (e *Exec) switchBody(st *State, clause *ast.CaseClause) []Outcome {
	var outs []Outcome
	for _, o := range e.execBlock(st, clause.Body) {
		if o.ctl == ctlBreak && o.label == "" {
			o.ctl = ctlNext
		}
		outs = append(outs, o)
	}
	for _, s := range clause.Body {
		if b, ok := s.(*ast.BranchStmt); ok && b.Tok == token.FALLTHROUGH {
			panic(unsupported("fallthrough"))
		}
	}
	return outs
}

func (e *Exec) execTypeSwitch(st *State, x *ast.TypeSwitchStmt) []Outcome {
	if x.Init != nil {
		panic(unsupported("type switch with init"))
	}
	var subject ast.Expr
	var bindName *ast.Ident
	switch a := x.Assign.(type) {
	case *ast.ExprStmt:
		subject = a.X.(*ast.TypeAssertExpr).X
	case *ast.AssignStmt:
		subject = a.Rhs[0].(*ast.TypeAssertExpr).X
		bindName = a.Lhs[0].(*ast.Ident)
	}
	_ = bindName
	sv := e.eval(st, subject)
	ref := asTerm(sv)
	var outs []Outcome
	cur := st
	var deflt *ast.CaseClause
	for _, cc := range x.Body.List {
		clause := cc.(*ast.CaseClause)
		if clause.List == nil {
			deflt = clause
			continue
		}
		if cur == nil {
			break
		}
		var conds []*Term
		for _, te := range clause.List {
			tt := e.info().TypeOf(te)
			if b, ok := tt.(*types.Basic); ok && b.Kind() == types.UntypedNil {
				conds = append(conds, mkEq(ref, tZero))
				continue
			}
			if _, isIface := tt.Underlying().(*types.Interface); isIface {
				conds = append(conds, mkAnd(mkNe(ref, tZero), e.implementsTerm(ref, tt)))
			} else {
				conds = append(conds, mkAnd(mkNe(ref, tZero), mkEq(dynType(ref), typeIdTerm(tt))))
			}
		}
		t, f := e.fork(cur, mkOr(conds...))
		if t != nil {
			if obj := e.info().Implicits[clause]; obj != nil {
				var bv Value = Scalar{ref, obj.Type()}
				if len(clause.List) == 1 {
					bv = e.assertedValue(t, ref, obj.Type())
				}
				t.store[e.cellFor(obj)] = bv
			}
			outs = append(outs, e.switchBody(t, clause)...)
		}
		cur = f
	}
	if cur != nil {
		if deflt != nil {
			if obj := e.info().Implicits[deflt]; obj != nil {
				cur.store[e.cellFor(obj)] = Scalar{ref, obj.Type()}
			}
			outs = append(outs, e.switchBody(cur, deflt)...)
		} else {
			outs = append(outs, Outcome{st: cur, ctl: ctlNext})
		}
	}
	return outs
}

// implementsTerm: uninterpreted predicate "dynamic type of ref implements interface t".
func (e *Exec) implementsTerm(ref *Term, t types.Type) *Term {
	return mkApp("implements!"+typeKey(t), SBool, dynType(ref))
}

// assertedValue gives the value obtained by asserting interface value ref to concrete type t.
func (e *Exec) assertedValue(st *State, ref *Term, t types.Type) Value {
	switch reprOf(t) {
	case rRef, rOpaque:
		return Scalar{ref, t}
	case rString:
		return Scalar{mkApp("unbox!str", SStr, ref), t}
	case rInt:
		v := mkApp("unbox!int", SInt, ref)
		st.assume(inRangeTerm(v, t))
		return Scalar{v, t}
	case rBool:
		return Scalar{mkApp("unbox!bool", SBool, ref), t}
	}
	panic(unsupported("type assertion to " + t.String()))
}

func (e *Exec) execReturn(st *State, x *ast.ReturnStmt) []Outcome {
	fr := e.top()
	if len(x.Results) == 0 {
		return e.doReturn(st, nil, x)
	}
	assign := func(s *State, vals []Value) {
		for i, c := range fr.results {
			s.store[c] = e.convertAssign(s, vals[i], c.Typ)
		}
	}
	if len(x.Results) == 1 && len(fr.results) != 1 {
		var outs []Outcome
		for _, r := range e.evalForking(st, x.Results[0]) {
			tv, ok := r.v.(TupleVal)
			if !ok || len(tv.Vals) != len(fr.results) {
				panic(unsupported("return of tuple"))
			}
			assign(r.st, tv.Vals)
			outs = append(outs, e.doReturn(r.st, nil, x)...)
		}
		return outs
	}
	if len(x.Results) == 1 {
		var outs []Outcome
		for _, r := range e.evalForking(st, x.Results[0]) {
			assign(r.st, []Value{r.v})
			outs = append(outs, e.doReturn(r.st, nil, x)...)
		}
		return outs
	}
	var vals []Value
	for _, r := range x.Results {
		vals = append(vals, e.eval(st, r))
	}
	assign(st, vals)
	return e.doReturn(st, nil, x)
}

func (e *Exec) execDefer(st *State, x *ast.DeferStmt) []Outcome {
	d := &deferred{frame: e.top().id, call: x.Call, pkg: e.curPkg()}
	// Arguments are evaluated now; closure bodies later.
	if _, isLit := ast.Unparen(x.Call.Fun).(*ast.FuncLit); !isLit {
		if sel, ok := ast.Unparen(x.Call.Fun).(*ast.SelectorExpr); ok {
			if s := e.info().Selections[sel]; s != nil {
				d.recv = e.eval(st, sel.X)
			}
		}
		for _, a := range x.Call.Args {
			d.args = append(d.args, e.eval(st, a))
		}
	}
	st.defers = append(st.defers, d)
	return one(st)
}

func (e *Exec) execDeferred(st *State, d *deferred) []Outcome {
	// execute in the package context of the defer statement
	saved := e.top().pkg
	e.top().pkg = d.pkg
	defer func() { e.top().pkg = saved }()
	if lit, ok := ast.Unparen(d.call.Fun).(*ast.FuncLit); ok {
		clo := ClosureVal{Lit: lit, Typ: e.info().TypeOf(lit)}
		var outs []Outcome
		for _, r := range e.inlineClosure(st, clo, nil, d.call) {
			outs = append(outs, Outcome{st: r.st, ctl: ctlNext})
		}
		return outs
	}
	e.callResolved(st, d.call, d.recv, d.args, true)
	return one(st)
}

func termSize(t *Term, limit int) int {
	n := 1
	for _, a := range t.Args {
		if n > limit {
			return n
		}
		n += termSize(a, limit-n)
	}
	return n
}

// nameValue replaces a large scalar term by a fresh constant defined equal to it (keeps queries
// small and models readable).
func (e *Exec) nameValue(st *State, v Value, lhs ast.Expr) Value {
	s, ok := v.(Scalar)
	if !ok || s.T.Sort.Kind != KInt && s.T.Sort.Kind != KBool {
		if sv, isS := v.(SliceVal); isS {
			return SliceVal{Arr: sv.Arr, Off: e.nameTerm(st, sv.Off, "off"), Len: e.nameTerm(st, sv.Len, "len"), Cap: e.nameTerm(st, sv.Cap, "cap"), Typ: sv.Typ}
		}
		return v
	}
	base := "v"
	if id, ok := lhs.(*ast.Ident); ok {
		base = id.Name
	}
	return Scalar{e.nameTerm(st, s.T, base), s.Typ}
}

func (e *Exec) nameTerm(st *State, t *Term, base string) *Term {
	if termSize(t, 12) <= 12 {
		return t
	}
	c := e.nm.fresh(base, t.Sort)
	st.assume(mkEq(c, t))
	return c
}
