package govc

import (
	"fmt"
	"go/ast"
	"go/token"
	"go/types"
	"os"
	"path/filepath"
	"sort"
	"strings"

	"golang.org/x/tools/go/packages"
)

type Program struct {
	fset    *token.FileSet
	pkgs    map[string]*packages.Package // by path
	byName  map[string]*types.Package    // short name -> package (module + deps referenced in specs)
	specs   *SpecSet
	strLits map[string]string
	arrKeys map[string][]string // element family -> leaf keys that can hold its backing-array ids
	decls   map[*types.Func]*ast.FuncDecl
	declPkg map[*types.Func]*packages.Package
	repo    string
	verif   string
	srcCache map[string][]byte
	axioms  []axiomTerm
}

func childEnv() []string {
	env := os.Environ()
	env = append(env, "GOFLAGS=-mod=mod", "GOPROXY=off", "GOSUMDB=off", "GOTOOLCHAIN=local")
	return env
}

func loadProgram(repo, verif string, patterns []string) (*Program, error) {
	fset := token.NewFileSet()
	cfg := &packages.Config{
		Mode: packages.NeedName | packages.NeedFiles | packages.NeedSyntax | packages.NeedTypes | packages.NeedTypesInfo |
			packages.NeedImports | packages.NeedDeps | packages.NeedCompiledGoFiles,
		Dir:        repo,
		Fset:       fset,
		BuildFlags: []string{"-tags=verif"},
		Env:        childEnv(),
	}
	pkgs, err := packages.Load(cfg, patterns...)
	if err != nil {
		return nil, err
	}
	p := &Program{fset: fset, pkgs: map[string]*packages.Package{}, byName: map[string]*types.Package{},
		specs: newSpecSet(), strLits: map[string]string{}, decls: map[*types.Func]*ast.FuncDecl{},
		declPkg: map[*types.Func]*packages.Package{}, repo: repo, verif: verif}
	var errs []string
	packages.Visit(pkgs, nil, func(pk *packages.Package) {
		if strings.HasPrefix(pk.PkgPath, modulePrefix) {
			for _, e := range pk.Errors {
				errs = append(errs, e.Error())
			}
		}
		p.pkgs[pk.PkgPath] = pk
		if pk.Types != nil {
			prev, dup := p.byName[pk.Types.Name()]
			switch {
			case !dup, strings.HasPrefix(pk.PkgPath, modulePrefix):
				p.byName[pk.Types.Name()] = pk.Types
			case strings.HasPrefix(prev.Path(), modulePrefix):
			case len(pk.PkgPath) < len(prev.Path()) || (len(pk.PkgPath) == len(prev.Path()) && pk.PkgPath < prev.Path()):
				p.byName[pk.Types.Name()] = pk.Types
			}
		}
	})
	if len(errs) > 0 {
		return nil, fmt.Errorf("package load errors:\n%s", strings.Join(errs, "\n"))
	}
	// index function declarations of module packages and parse contract files
	for path, pk := range p.pkgs {
		if !strings.HasPrefix(path, modulePrefix) {
			continue
		}
		for i, f := range pk.Syntax {
			for _, d := range f.Decls {
				if fd, ok := d.(*ast.FuncDecl); ok {
					if obj, ok := pk.TypesInfo.Defs[fd.Name].(*types.Func); ok {
						p.decls[obj] = fd
						p.declPkg[obj] = pk
					}
				}
			}
			fname := pk.CompiledGoFiles[i]
			if strings.HasSuffix(fname, "contracts_verif.go") {
				var lines []string
				var nos []int
				for _, cg := range f.Comments {
					for _, c := range cg.List {
						if strings.HasPrefix(c.Text, "//@") {
							lines = append(lines, c.Text[3:])
							nos = append(nos, fset.Position(c.Pos()).Line)
						}
					}
				}
				if err := p.specs.parseContractText(fname, path, lines, nos); err != nil {
					return nil, err
				}
			}
		}
	}
	// every module contract must name an existing function (or function literal)
	for _, c := range p.specs.Contracts {
		if c.Pkg == "" {
			continue
		}
		key := c.Key
		if j := strings.LastIndex(key, "$"); j >= 0 {
			key = key[:j]
		}
		found := false
		for f, pk := range p.declPkg {
			if pk.PkgPath == c.Pkg && funcKey(f) == key {
				found = true
				break
			}
		}
		if !found {
			// interface methods of module interfaces
			if pk := p.pkgs[c.Pkg]; pk != nil {
				if i := strings.Index(key, "."); i > 0 {
					if tn, ok := pk.Types.Scope().Lookup(key[:i]).(*types.TypeName); ok {
						if it, ok := tn.Type().Underlying().(*types.Interface); ok {
							for k := 0; k < it.NumMethods(); k++ {
								if it.Method(k).Name() == key[i+1:] {
									found = true
								}
							}
						}
					}
				}
			}
		}
		if !found {
			return nil, ContractError{fmt.Sprintf("%s:%d: contract for %q does not match any function of package %s", c.File, c.Line, c.Key, c.Pkg)}
		}
	}
	if err := p.checkTypeInvImmutable(); err != nil {
		return nil, err
	}
	// library specs
	libs, _ := filepath.Glob(filepath.Join(verif, "contracts", "lib", "*.spec"))
	sort.Strings(libs)
	for _, lf := range libs {
		data, err := os.ReadFile(lf)
		if err != nil {
			return nil, err
		}
		var lines []string
		var nos []int
		for i, l := range strings.Split(string(data), "\n") {
			t := strings.TrimSpace(l)
			if strings.HasPrefix(t, "#") {
				continue
			}
			lines = append(lines, l)
			nos = append(nos, i+1)
		}
		if err := p.specs.parseContractText(lf, "", lines, nos); err != nil {
			return nil, err
		}
	}
	// evaluate axioms once, here, so that a malformed axiom is a load error
	var axErr error
	func() {
		defer func() {
			if r := recover(); r != nil {
				if ce, ok := r.(ContractError); ok {
					axErr = ce
					return
				}
				panic(r)
			}
		}()
		p.axiomTerms()
	}()
	if axErr != nil {
		return nil, axErr
	}
	return p, nil
}

func (p *Program) pkgByName(name string) *types.Package { return p.byName[name] }

// funcKey gives the package-relative contract key of a function: "Type.method" or "func".
func funcKey(f *types.Func) string {
	sig := f.Type().(*types.Signature)
	if r := sig.Recv(); r != nil {
		t := r.Type()
		if p, ok := t.(*types.Pointer); ok {
			t = p.Elem()
		}
		switch n := t.(type) {
		case *types.Named:
			return n.Obj().Name() + "." + f.Name()
		case *types.Alias:
			return n.Obj().Name() + "." + f.Name()
		}
		return typeKey(t) + "." + f.Name()
	}
	return f.Name()
}

// libKey gives the library contract key: "pkgname.Func" or "pkgname.Type.Method".
func libKey(f *types.Func) string {
	pk := ""
	if f.Pkg() != nil {
		pk = f.Pkg().Name() + "."
	}
	return pk + funcKey(f)
}

func (p *Program) contractFor(f *types.Func) *Contract {
	f = f.Origin()
	if f.Pkg() != nil && inModule(f.Pkg()) {
		if c, ok := p.specs.Contracts[contractKey(f.Pkg().Path(), funcKey(f))]; ok {
			return c
		}
		return nil
	}
	if c, ok := p.specs.Contracts[libKey(f)]; ok {
		return c
	}
	return nil
}

// lookupFunc finds a module function by "pkgname.Key".
func (p *Program) lookupFunc(pkgName, key string) (*types.Func, *packages.Package) {
	for f, pk := range p.declPkg {
		if pk.Types.Name() == pkgName && funcKey(f) == key {
			return f, pk
		}
	}
	return nil, nil
}

// funcLitOrdinal: k-th function literal (source order) inside its FuncDecl.
func (p *Program) funcLitOrdinal(decl *ast.FuncDecl, lit *ast.FuncLit) int {
	k, found := 0, 0
	ast.Inspect(decl, func(n ast.Node) bool {
		if l, ok := n.(*ast.FuncLit); ok {
			k++
			if l == lit {
				found = k
			}
		}
		return true
	})
	return found
}

func (p *Program) funcLitByOrdinal(decl *ast.FuncDecl, k int) *ast.FuncLit {
	i := 0
	var out *ast.FuncLit
	ast.Inspect(decl, func(n ast.Node) bool {
		if l, ok := n.(*ast.FuncLit); ok {
			i++
			if i == k {
				out = l
			}
		}
		return true
	})
	return out
}

// closureContract finds the contract "Decl$k" of a function literal and its parameter names.
func (p *Program) closureContract(lit *ast.FuncLit) (*Contract, []string) {
	pk := p.pkgOfNode(lit)
	if pk == nil {
		return nil, nil
	}
	decl := p.enclosingDecl(pk, lit.Pos())
	if decl == nil {
		return nil, nil
	}
	obj, _ := pk.TypesInfo.Defs[decl.Name].(*types.Func)
	if obj == nil {
		return nil, nil
	}
	key := fmt.Sprintf("%s$%d", funcKey(obj), p.funcLitOrdinal(decl, lit))
	c := p.specs.Contracts[contractKey(pk.PkgPath, key)]
	if c == nil {
		return nil, nil
	}
	var names []string
	i := 0
	for _, fld := range lit.Type.Params.List {
		for _, nm := range fld.Names {
			n := nm.Name
			if i < len(c.Params) {
				n = c.Params[i]
			}
			names = append(names, n)
			i++
		}
	}
	return c, names
}

// checkTypeInvImmutable: fields mentioned in a typeinv must never be assigned outside composite
// literals anywhere in the module (the invariant is assumed, not re-established).
func (p *Program) checkTypeInvImmutable() error {
	fields := map[string]map[string]bool{} // pkg#Type -> field names
	var collect func(x *SExpr, into map[string]bool)
	collect = func(x *SExpr, into map[string]bool) {
		if x == nil {
			return
		}
		if x.Kind == "field" && x.Args[0].Kind == "ident" && x.Args[0].Name == "this" {
			into[x.Name] = true
		}
		for _, a := range x.Args {
			collect(a, into)
		}
	}
	for k, invs := range p.specs.TypeInvs {
		fields[k] = map[string]bool{}
		for _, inv := range invs {
			collect(inv, fields[k])
		}
	}
	if len(fields) == 0 {
		return nil
	}
	for path, pk := range p.pkgs {
		if !strings.HasPrefix(path, modulePrefix) {
			continue
		}
		var bad error
		for _, f := range pk.Syntax {
			ast.Inspect(f, func(n ast.Node) bool {
				var lhs []ast.Expr
				switch a := n.(type) {
				case *ast.AssignStmt:
					lhs = a.Lhs
				case *ast.IncDecStmt:
					lhs = []ast.Expr{a.X}
				}
				for _, l := range lhs {
					sel, ok := ast.Unparen(l).(*ast.SelectorExpr)
					if !ok {
						continue
					}
					s := pk.TypesInfo.Selections[sel]
					if s == nil || s.Kind() != types.FieldVal {
						continue
					}
					rt := s.Recv()
					if pt, ok := rt.Underlying().(*types.Pointer); ok {
						rt = pt.Elem()
					}
					if named, ok := types.Unalias(rt).(*types.Named); ok && named.Obj().Pkg() != nil {
						k := named.Obj().Pkg().Path() + "#" + named.Obj().Name()
						if fields[k][sel.Sel.Name] {
							bad = ContractError{fmt.Sprintf("%s: field %s.%s is assigned but a typeinv relies on it being immutable",
								p.fset.Position(l.Pos()), named.Obj().Name(), sel.Sel.Name)}
						}
					}
				}
				return true
			})
		}
		if bad != nil {
			return bad
		}
	}
	return nil
}

// namedType finds a named type by "pkgname.Type".
func (p *Program) namedType(key string) types.Type {
	if strings.HasPrefix(key, "[]") {
		if key == "[]uint8" || key == "[]byte" {
			return types.NewSlice(types.Typ[types.Uint8])
		}
		if el := p.namedType(key[2:]); el != nil {
			return types.NewSlice(el)
		}
		return nil
	}
	i := strings.Index(key, ".")
	if i < 0 {
		return nil
	}
	pk := p.byName[key[:i]]
	if pk == nil {
		return nil
	}
	tn, ok := pk.Scope().Lookup(key[i+1:]).(*types.TypeName)
	if !ok {
		return nil
	}
	return tn.Type()
}
