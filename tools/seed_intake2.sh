#!/bin/bash
# usage: CHECKS="C01 C04" seed_intake2.sh <worktree> <seed-id> <property> <demo-file-rel> <pkg-dir-rel> <test-regex> "<needs>"
# Like seed_intake.sh, but the checks run against the sub-agent's own worktree (--repo <worktree>) with a scratch copy
# of /verif, so /repo is never touched and several intakes can run at the same time.
set -u
WT=$1; ID=$2; PROP=$3; DEMO=$4; PKG=$5; RE=$6; NEEDS=$7
export GOFLAGS=-mod=mod GOPROXY=off GOSUMDB=off GOTOOLCHAIN=local
OUT=/verif/seeded/$ID; mkdir -p $OUT
cd $WT || exit 2
git diff -- pkg internal cmd ':(exclude)*contracts_verif.go' > $OUT/patch.diff
cp $WT/$DEMO $OUT/$(basename $DEMO)
[ -s $OUT/patch.diff ] || { echo "empty patch"; exit 2; }
go build ./... && echo build-ok
go test -vet=off -count=1 ./pkg/iprange ./pkg/kongini 2>&1 | grep -v "^ok" | tail -2; go test -vet=off -count=1 -run TestSFO ./pkg/fs 2>&1 | grep -v "^ok" | tail -1
go test -vet=off -count=1 -timeout 120s -run "$RE" ./$PKG > $OUT/demo_with.txt 2>&1; W=$?
git apply -R $OUT/patch.diff
go test -vet=off -count=1 -timeout 120s -run "$RE" ./$PKG > $OUT/demo_without.txt 2>&1; WO=$?
git apply $OUT/patch.diff
echo "demo exit with=$W without=$WO"
# the contracts the checks use are those committed in /repo now (the worktree may be older)
git -C /repo diff --quiet HEAD -- . || echo "WARNING: /repo has uncommitted changes"
for f in $(cd /repo && git ls-files '*contracts_verif.go'); do cp /repo/$f $WT/$f; done
mv $WT/$DEMO /tmp/$ID-demo.go.keep
SV=/tmp/rcv-$ID; rm -rf $SV; mkdir -p $SV; ( cd /verif && tar cf - --exclude=.git --exclude=seeded --exclude=harmless --exclude=replays --exclude=engine . ) | tar xf - -C $SV
DET=""
PROPS=${CHECKS:-$PROP}
echo $PROPS | tr ' ' '\n' | xargs -P 2 -I{} bash -c "cd $SV && ./bin/govc check --repo $WT --verif $SV --property {} > $SV/{}.out 2>&1"
for P in $PROPS; do
  R=$(grep -E "^VIOLATION|^CHECK-BROKEN" $SV/$P.out | head -3)
  if [ -n "$R" ]; then DET="$DET $P"; echo "-- $P:"; echo "$R" | sed 's/replay=[^ ]*replays\//replay=/' | cut -c1-200; else echo "-- $P: quiet ($(tail -1 $SV/$P.out | cut -c1-120))"; fi
done
mv /tmp/$ID-demo.go.keep $WT/$DEMO
rm -rf $SV
echo "DETECTED-BY:$DET"
python3 - <<PY
import json
json.dump({"id":"$ID","property":"$PROP","needs":"""$NEEDS""","demo":"$(basename $DEMO)","demo_run":"cd <worktree> && go test -vet=off -count=1 -run '$RE' ./$PKG","demo_exit_with_change":$W,"demo_exit_without_change":$WO,
 "confirmed_by":"tools/seed_intake2.sh: go build ./...; pinned tests (iprange, kongini, TestSFO) pass with the change; demo fails with and passes without the change","detected_by_checks":"$DET".split()},open("$OUT/meta.json","w"),indent=1)
PY
