#!/usr/bin/env python3
"""Regenerates /verif/MANIFEST.json from propmap.json (claimed checks) and notapplicable.json."""
import json, os, subprocess
V = os.path.dirname(os.path.dirname(os.path.abspath(__file__)))
props = [json.loads(l) for l in open(os.path.join(V, 'properties.jsonl'))]
pm = json.load(open(os.path.join(V, 'propmap.json')))
na = json.load(open(os.path.join(V, 'notapplicable.json')))
hooks = subprocess.run(['git', '-C', '/repo', 'log', '--format=%H %s'], capture_output=True, text=True).stdout.splitlines()
hook_commits = [l.split()[0] for l in hooks if 'verif hook:' in l]
checks = []
for p in props:
    pid = p['id']
    if pid not in pm:
        continue
    e = pm[pid]
    cat = e.get('level', 'proof')
    checks.append({
        'property_id': pid,
        'quick_cmd': f'./bin/govc check --property {pid} --tier quick',
        'thorough_cmd': f'./bin/govc check --property {pid} --tier thorough',
        'evidence_file': f'/verif/evidence/{pid}.json',
        'replay_cmd_template': './bin/govc replay {path}',
        'engine': 'govc',
        'technique': e.get('technique') or 'contract-based deductive verification: weakest-precondition style VCs generated from the typed AST of /repo by symbolic execution against //@ contracts, discharged by z3 5.1 / z3 4.8 / cvc5',
        'level_claimed': {'category': cat, 'text': e.get('claim', e.get('note', '')), 'design_ref': 'DESIGN.md section 6 ' + pid},
        'level_note': 'Trusted: ' + '; '.join(e.get('trusted_base', [])) + '. Not covered: ' + '; '.join(e.get('not_covered', [])) + '.',
    })
claimed = {c['property_id'] for c in checks}
nal = []
for p in props:
    if p['id'] not in claimed:
        nal.append({'property_id': p['id'], 'reason': na.get(p['id'], 'not reached: contracts for this property are not finished (see DESIGN.md section 10)')})
m = {
    'version': 1,
    'setup_cmd': 'cd /verif/engine && GOFLAGS=-mod=mod GOPROXY=off GOSUMDB=off GOTOOLCHAIN=local go build -o /verif/bin/govc ./cmd/govc',
    'hooks': {'guard': 'verif', 'enable': 'go/packages load of /repo with -tags verif; the only hook files are comment-only contracts_verif.go files (//go:build verif)',
              'baseline_off_cmd': 'cd /repo && GOFLAGS=-mod=mod GOPROXY=off go test -vet=off -count=1 ./...',
              'source_commits': hook_commits, 'add_only': True},
    'engines': [{'name': 'govc', 'path': '/verif/engine', 'serves_properties': sorted(claimed),
                 'kind_free_text': 'contract-based deductive verifier for Go written for this task: loads /repo with go/packages, symbolically executes each function under contract (callers against callee contracts, loops cut at invariants, range-over-func producers inlined mechanically), emits one SMT-LIB query per proof obligation, races z3-new/z3/cvc5, replays models on the real code through go test -overlay'}],
    'checks': checks,
    'not_applicable': nal,
    'notes': 'Known findings: /verif/KNOWN_FINDINGS.json. Contracts live in /repo/**/contracts_verif.go (build tag verif) and /verif/contracts/lib/*.spec (assumed library contracts = trusted base).',
}
json.dump(m, open(os.path.join(V, 'MANIFEST.json'), 'w'), indent=1)
print('claimed:', sorted(claimed))
