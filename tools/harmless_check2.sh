#!/bin/bash
# usage: CHECKS="C04 C08" harmless_check2.sh <id>  - applies the stored behaviour-preserving change harmless/<id>/patch.diff
# to a scratch worktree of /repo (with the working-tree contract files), runs the claimed checks against it with a scratch
# copy of /verif, and lists the checks that raise an alarm. /repo and /verif are not touched.
set -u
ID=$1
export GOFLAGS=-mod=mod GOPROXY=off GOSUMDB=off GOTOOLCHAIN=local
W=/tmp/hc-$ID; rm -rf $W; mkdir -p $W; git -C /repo worktree prune
git -C /repo worktree add --detach $W/repo HEAD >/dev/null 2>&1 || { echo "$ID: worktree failed"; exit 2; }
( cd $W/repo && git apply /verif/harmless/$ID/patch.diff ) || { echo "$ID: patch does not apply"; git -C /repo worktree remove --force $W/repo; exit 2; }
for f in $(cd /repo && git ls-files '*contracts_verif.go'); do cp /repo/$f $W/repo/$f; done
( cd $W/repo && go build ./... ) || { echo "$ID: does not build"; git -C /repo worktree remove --force $W/repo; exit 2; }
mkdir -p $W/verif; ( cd /verif && tar cf - --exclude=.git --exclude=seeded --exclude=harmless --exclude=replays --exclude=engine . ) | tar xf - -C $W/verif
PROPS=${CHECKS:-$(python3 -c "import json;print(' '.join(c['property_id'] for c in json.load(open('/verif/MANIFEST.json'))['checks']))")}
echo $PROPS | tr ' ' '\n' | xargs -P 3 -I{} bash -c "cd $W/verif && ./bin/govc check --repo $W/repo --verif $W/verif --property {} > $W/{}.out 2>&1; echo exit=\$? >> $W/{}.out"
ALARM=""
for P in $PROPS; do
  if ! grep -q "exit=0" $W/$P.out || grep -qE "^VIOLATION|^CHECK-BROKEN" $W/$P.out; then ALARM="$ALARM $P"; fi
done
echo "$ID ALARMS:$ALARM"
for P in $ALARM; do grep -E "^VIOLATION|^CHECK-BROKEN|error" $W/$P.out | head -4 | sed 's/replay=[^ ]*replays\//replay=/' | cut -c1-200 | sed "s/^/    $P: /"; done
git -C /repo worktree remove --force $W/repo; rm -rf $W
