package govc

import (
	"fmt"
	"math/big"
	"strconv"
	"strings"
	"unicode"
)

// ---------------------------------------------------------------------------------------------
// Spec expression AST
// ---------------------------------------------------------------------------------------------

type SExpr struct {
	Kind string // int str ident unary binary quant ite call index slice field old
	Op   string
	Name string
	Int  *big.Int
	Str  string
	Args []*SExpr
	// quant
	Binders []binder
	Pats    [][]*SExpr
	Text    string
}

type binder struct {
	Name string
	Type string
}

func (e *SExpr) String() string { return e.Text }

// ---------------------------------------------------------------------------------------------
// Lexer
// ---------------------------------------------------------------------------------------------

type stoken struct {
	kind string // int str ident op eof
	text string
	pos  int
}

func slex(src string) ([]stoken, error) {
	var toks []stoken
	i := 0
	ops := []string{"<==>", "==>", "::", ":=", "==", "!=", "<=", ">=", "&&", "||", "<<", ">>", "&^", "++"}
	for i < len(src) {
		c := src[i]
		switch {
		case c == ' ' || c == '\t' || c == '\n' || c == '\r':
			i++
		case c >= '0' && c <= '9':
			j := i
			for j < len(src) && (isIdentChar(src[j]) || src[j] == 'x' || src[j] == 'X') {
				j++
			}
			toks = append(toks, stoken{"int", src[i:j], i})
			i = j
		case c == '"':
			j := i + 1
			for j < len(src) && src[j] != '"' {
				if src[j] == '\\' {
					j++
				}
				j++
			}
			if j >= len(src) {
				return nil, fmt.Errorf("unterminated string at %d", i)
			}
			s, err := strconv.Unquote(src[i : j+1])
			if err != nil {
				return nil, fmt.Errorf("bad string literal %s", src[i:j+1])
			}
			toks = append(toks, stoken{"str", s, i})
			i = j + 1
		case c == '\'':
			j := i + 1
			for j < len(src) && src[j] != '\'' {
				if src[j] == '\\' {
					j++
				}
				j++
			}
			r, _, _, err := strconv.UnquoteChar(src[i+1:j], '\'')
			if err != nil {
				return nil, fmt.Errorf("bad char literal")
			}
			toks = append(toks, stoken{"int", strconv.Itoa(int(r)), i})
			i = j + 1
		case isIdentStart(c):
			j := i
			for j < len(src) && isIdentChar(src[j]) {
				j++
			}
			toks = append(toks, stoken{"ident", src[i:j], i})
			i = j
		default:
			matched := false
			for _, op := range ops {
				if strings.HasPrefix(src[i:], op) {
					toks = append(toks, stoken{"op", op, i})
					i += len(op)
					matched = true
					break
				}
			}
			if !matched {
				if strings.ContainsRune("+-*/%<>!()[]{}.,:?&|^=@#", rune(c)) {
					toks = append(toks, stoken{"op", string(c), i})
					i++
				} else {
					return nil, fmt.Errorf("unexpected character %q at %d", c, i)
				}
			}
		}
	}
	toks = append(toks, stoken{"eof", "", len(src)})
	return toks, nil
}

func isIdentStart(c byte) bool { return c == '_' || c == '$' || unicode.IsLetter(rune(c)) }
func isIdentChar(c byte) bool  { return isIdentStart(c) || (c >= '0' && c <= '9') }

// ---------------------------------------------------------------------------------------------
// Parser
// ---------------------------------------------------------------------------------------------

type sparser struct {
	toks []stoken
	p    int
	src  string
}

func parseSpecExpr(src string) (e *SExpr, err error) {
	toks, err := slex(src)
	if err != nil {
		return nil, err
	}
	ps := &sparser{toks: toks, src: src}
	defer func() {
		if r := recover(); r != nil {
			if pe, ok := r.(specParseErr); ok {
				err = fmt.Errorf("%s in %q", string(pe), src)
				return
			}
			panic(r)
		}
	}()
	e = ps.expr()
	if ps.peek().kind != "eof" {
		ps.fail("unexpected token " + ps.peek().text)
	}
	return e, nil
}

type specParseErr string

func (p *sparser) fail(msg string) { panic(specParseErr(msg)) }
func (p *sparser) peek() stoken    { return p.toks[p.p] }
func (p *sparser) next() stoken    { t := p.toks[p.p]; p.p++; return t }
func (p *sparser) isOp(s string) bool {
	t := p.peek()
	return t.kind == "op" && t.text == s
}
func (p *sparser) isIdent(s string) bool {
	t := p.peek()
	return t.kind == "ident" && t.text == s
}
func (p *sparser) expectOp(s string) {
	if !p.isOp(s) {
		p.fail(fmt.Sprintf("expected %q, found %q", s, p.peek().text))
	}
	p.p++
}

func (p *sparser) mk(start int, e *SExpr) *SExpr {
	end := p.toks[p.p].pos
	if end > len(p.src) {
		end = len(p.src)
	}
	e.Text = strings.TrimSpace(p.src[start:end])
	return e
}

func (p *sparser) expr() *SExpr {
	start := p.peek().pos
	if p.isIdent("forall") || p.isIdent("exists") {
		q := p.next().text
		var bs []binder
		for {
			t := p.next()
			if t.kind != "ident" {
				p.fail("binder name expected")
			}
			b := binder{Name: t.text, Type: "int"}
			if p.peek().kind == "ident" {
				b.Type = p.next().text
				if b.Type == "map" && p.isOp("[") { // map[int]T
					p.p++
					k := p.next().text
					p.expectOp("]")
					b.Type = "map[" + k + "]" + p.next().text
				}
			}
			bs = append(bs, b)
			if p.isOp(",") {
				p.p++
				continue
			}
			break
		}
		var pats [][]*SExpr
		for p.isOp("{") {
			p.p++
			var alt []*SExpr
			for !p.isOp("}") {
				alt = append(alt, p.expr())
				if p.isOp(",") {
					p.p++
				}
			}
			p.expectOp("}")
			pats = append(pats, alt)
		}
		p.expectOp("::")
		body := p.expr()
		return p.mk(start, &SExpr{Kind: "quant", Op: q, Binders: bs, Pats: pats, Args: []*SExpr{body}})
	}
	c := p.iff()
	if p.isOp("?") {
		p.p++
		a := p.expr()
		p.expectOp(":")
		b := p.expr()
		return p.mk(start, &SExpr{Kind: "ite", Args: []*SExpr{c, a, b}})
	}
	return c
}

func (p *sparser) iff() *SExpr {
	start := p.peek().pos
	l := p.imp()
	for p.isOp("<==>") {
		p.p++
		r := p.imp()
		l = p.mk(start, &SExpr{Kind: "binary", Op: "<==>", Args: []*SExpr{l, r}})
	}
	return l
}

func (p *sparser) imp() *SExpr {
	start := p.peek().pos
	l := p.or()
	if p.isOp("==>") {
		p.p++
		var r *SExpr
		if p.isIdent("forall") || p.isIdent("exists") {
			r = p.expr()
		} else {
			r = p.imp()
		}
		return p.mk(start, &SExpr{Kind: "binary", Op: "==>", Args: []*SExpr{l, r}})
	}
	return l
}

func (p *sparser) or() *SExpr {
	start := p.peek().pos
	l := p.and()
	for p.isOp("||") {
		p.p++
		r := p.and()
		l = p.mk(start, &SExpr{Kind: "binary", Op: "||", Args: []*SExpr{l, r}})
	}
	return l
}

func (p *sparser) and() *SExpr {
	start := p.peek().pos
	l := p.cmp()
	for p.isOp("&&") {
		p.p++
		var r *SExpr
		if p.isIdent("forall") || p.isIdent("exists") {
			r = p.expr()
		} else {
			r = p.cmp()
		}
		l = p.mk(start, &SExpr{Kind: "binary", Op: "&&", Args: []*SExpr{l, r}})
	}
	return l
}

func isCmpOp(s string) bool {
	switch s {
	case "==", "!=", "<", "<=", ">", ">=":
		return true
	}
	return false
}

func (p *sparser) cmp() *SExpr {
	start := p.peek().pos
	l := p.add()
	var conj *SExpr
	for p.peek().kind == "op" && isCmpOp(p.peek().text) {
		op := p.next().text
		r := p.add()
		c := p.mk(start, &SExpr{Kind: "binary", Op: op, Args: []*SExpr{l, r}})
		if conj == nil {
			conj = c
		} else {
			conj = p.mk(start, &SExpr{Kind: "binary", Op: "&&", Args: []*SExpr{conj, c}})
		}
		l = r
	}
	if conj != nil {
		return conj
	}
	return l
}

func (p *sparser) add() *SExpr {
	start := p.peek().pos
	l := p.mul()
	for p.isOp("+") || p.isOp("-") || p.isOp("|") || p.isOp("^") || p.isOp("++") {
		op := p.next().text
		r := p.mul()
		l = p.mk(start, &SExpr{Kind: "binary", Op: op, Args: []*SExpr{l, r}})
	}
	return l
}

func (p *sparser) mul() *SExpr {
	start := p.peek().pos
	l := p.unary()
	for p.isOp("*") || p.isOp("/") || p.isOp("%") || p.isOp("&") || p.isOp("<<") || p.isOp(">>") || p.isOp("&^") {
		op := p.next().text
		r := p.unary()
		l = p.mk(start, &SExpr{Kind: "binary", Op: op, Args: []*SExpr{l, r}})
	}
	return l
}

func (p *sparser) unary() *SExpr {
	start := p.peek().pos
	if p.isOp("!") || p.isOp("-") || p.isOp("^") {
		op := p.next().text
		x := p.unary()
		return p.mk(start, &SExpr{Kind: "unary", Op: op, Args: []*SExpr{x}})
	}
	return p.postfix()
}

func (p *sparser) postfix() *SExpr {
	start := p.peek().pos
	x := p.primary()
	for {
		switch {
		case p.isOp("."):
			p.p++
			t := p.next()
			if t.kind != "ident" {
				p.fail("field name expected")
			}
			x = p.mk(start, &SExpr{Kind: "field", Name: t.text, Args: []*SExpr{x}})
		case p.isOp("["):
			p.p++
			var lo, hi *SExpr
			if !p.isOp(":") {
				lo = p.expr()
			}
			if p.isOp(":") {
				p.p++
				if !p.isOp("]") {
					hi = p.expr()
				}
				p.expectOp("]")
				x = p.mk(start, &SExpr{Kind: "slice", Args: []*SExpr{x, lo, hi}})
			} else {
				p.expectOp("]")
				x = p.mk(start, &SExpr{Kind: "index", Args: []*SExpr{x, lo}})
			}
		case p.isOp("("):
			p.p++
			var args []*SExpr
			for !p.isOp(")") {
				args = append(args, p.expr())
				if p.isOp(",") {
					p.p++
				}
			}
			p.expectOp(")")
			if x.Kind == "ident" {
				x = p.mk(start, &SExpr{Kind: "call", Name: x.Name, Args: args})
			} else if x.Kind == "field" {
				// method-style: a.f(args) -> call "f" with receiver first
				x = p.mk(start, &SExpr{Kind: "call", Name: "." + x.Name, Args: append([]*SExpr{x.Args[0]}, args...)})
			} else {
				p.fail("call of non-identifier")
			}
		default:
			return x
		}
	}
}

func (p *sparser) primary() *SExpr {
	start := p.peek().pos
	t := p.next()
	switch t.kind {
	case "int":
		v, ok := new(big.Int).SetString(strings.ReplaceAll(t.text, "_", ""), 0)
		if !ok {
			p.fail("bad integer " + t.text)
		}
		return p.mk(start, &SExpr{Kind: "int", Int: v})
	case "str":
		return p.mk(start, &SExpr{Kind: "str", Str: t.text})
	case "ident":
		return p.mk(start, &SExpr{Kind: "ident", Name: t.text})
	case "op":
		if t.text == "(" {
			e := p.expr()
			p.expectOp(")")
			return e
		}
	}
	p.fail("unexpected token " + t.text)
	return nil
}

// ---------------------------------------------------------------------------------------------
// Contract files
// ---------------------------------------------------------------------------------------------

type Clause struct {
	Kind  string // requires ensures invariant decreases assert
	Tags  []string
	Label string
	Expr  *SExpr
	Src   string
	File  string
	Line  int
}

type LoopSpec struct {
	Invariants []*Clause
	Decreases  *Clause
	Unroll     bool
	Modifies   []*SExpr
}

type LetDef struct {
	Name string
	Expr *SExpr
}

type Contract struct {
	Key      string // "Type.method" or "func" (package-relative) or full lib name
	Pkg      string // package path ("" for lib)
	Recv     string
	Params   []string
	Results  []string
	Requires []*Clause
	Ensures  []*Clause
	Modifies []*SExpr
	// OwnMemory: memory families the body may write although callers are told nothing changes there -
	// the ASSUMED frame "only memory allocated by this call is written" for constructors whose callees
	// carry whole-family modifies (listed as an assumption in the evidence)
	OwnMemory []*SExpr
	ModAll   bool // "modifies *": everything may change (only for trusted lib calls)
	Loops    map[string]*LoopSpec
	Lets     []LetDef
	Tags     []string
	Inline   bool
	Trusted  bool
	Pure     bool // no side effects (may be called from specs as uninterpreted function of its args + state)
	Lib      bool
	Mode     string // "int" (default) or "bv"
	File     string
	Line     int
	Ghosts   []LetDef // ghost updates: "update name = expr" evaluated at return (post-state)
	Asserts  map[string][]*Clause
	Alloc    *SExpr
	Impl     []string // interface contracts this function must also satisfy
	Anys     []binder // universally quantified ghost constants ("any t int")
	WrapOK   []string // source texts of conversions/operations whose wrap-around is intended
	Cases    []CaseSplit
	AltPkg   string // package of the interface contract this one was merged from
	SafetyTags []string // properties that panic-freedom / overflow obligations of this function count for (default C04)
}

// CaseSplit: the entry state is split by the value of Expr (one path per listed value plus one for
// "none of them"); purely a proof hint, sound because the split is exhaustive.
type CaseSplit struct {
	Expr   *SExpr
	Values []*SExpr
}

type SpecFunc struct {
	Name    string
	Pkg     string
	Params  []binder
	Result  string
	Body    *SExpr // nil: uninterpreted
	File    string
	Line    int
	Trigger bool
}

type Axiom struct {
	Name string
	Pkg  string
	Expr *SExpr
	File string
	Line int
	// Funcs mentioned (computed lazily) for cone-of-influence inclusion
}

type GhostDecl struct {
	Name string
	Type string
	Log  bool // observational record (last arguments of a call …): exempt from frame conditions
}

type SpecSet struct {
	Contracts map[string]*Contract // key: pkgpath + "#" + Key  (lib: Key)
	Funcs     map[string]*SpecFunc
	Axioms    []*Axiom
	Ghosts    map[string]*GhostDecl
	NoEffect  map[string]bool // library functions without effect on verified state
	Consts    map[string]*SExpr
	GhostInits map[string][]LetDef // pkgpath#Type -> ghost map initialisations at &T{...}
	TypeInvs   map[string][]*SExpr // pkgpath#Type -> invariants of *Type objects (over immutable fields)
}

func newSpecSet() *SpecSet {
	return &SpecSet{Contracts: map[string]*Contract{}, Funcs: map[string]*SpecFunc{}, Ghosts: map[string]*GhostDecl{},
		NoEffect: map[string]bool{}, Consts: map[string]*SExpr{}, GhostInits: map[string][]LetDef{}, TypeInvs: map[string][]*SExpr{}}
}

type ContractError struct{ msg string }

func (c ContractError) Error() string { return "CONTRACT-ERROR: " + c.msg }

var clauseKeywords = map[string]bool{"func": true, "requires": true, "ensures": true, "modifies": true, "loop": true,
	"spec": true, "axiom": true, "pred": true, "ghost": true, "inline": true, "trusted": true, "let": true, "tags": true,
	"ownmemory": true, "noeffect": true, "pure": true, "mode": true, "update": true, "const": true, "alloc": true, "implements": true, "end": true, "any": true, "wrapok": true, "ghostinit": true, "cases": true, "typeinv": true, "safetytags": true, "interior": true}

// parseContractText parses the //@ lines of one file. pkg is the package path ("" for library specs).
func (ss *SpecSet) parseContractText(file, pkg string, lines []string, lineNos []int) error {
	// join continuation lines
	type item struct {
		text string
		line int
	}
	var items []item
	for i, l := range lines {
		t := strings.TrimSpace(l)
		if t == "" {
			continue
		}
		if idx := strings.Index(t, " -- "); idx >= 0 {
			t = strings.TrimSpace(t[:idx])
		}
		if strings.HasPrefix(t, "--") || t == "" {
			continue
		}
		first := t
		if j := strings.IndexAny(t, " \t[("); j >= 0 {
			first = t[:j]
		}
		if clauseKeywords[first] || len(items) == 0 {
			items = append(items, item{t, lineNos[i]})
		} else {
			items[len(items)-1].text += " " + t
		}
	}
	var cur *Contract
	fail := func(it item, msg string) error {
		return ContractError{fmt.Sprintf("%s:%d: %s (in %q)", file, it.line, msg, it.text)}
	}
	for _, it := range items {
		kw, rest := splitFirst(it.text)
		var tags []string
		if i := strings.Index(kw, "["); i >= 0 && strings.HasSuffix(kw, "]") {
			tags = strings.Split(kw[i+1:len(kw)-1], ",")
			kw = kw[:i]
		}
		switch kw {
		case "func":
			c := &Contract{Pkg: pkg, Loops: map[string]*LoopSpec{}, File: file, Line: it.line, Lib: pkg == "", Asserts: map[string][]*Clause{}}
			key, attrs := splitFirst(rest)
			if key == "" {
				return fail(it, "func needs a key")
			}
			c.Key = key
			for attrs != "" {
				i := strings.Index(attrs, "(")
				j := strings.Index(attrs, ")")
				if i < 0 || j < i {
					return fail(it, "malformed func attribute "+attrs)
				}
				name := strings.TrimSpace(attrs[:i])
				list := splitList(attrs[i+1 : j])
				switch name {
				case "recv":
					if len(list) == 1 {
						c.Recv = list[0]
					}
				case "params":
					c.Params = list
				case "results":
					c.Results = list
				default:
					return fail(it, "unknown func attribute "+name)
				}
				attrs = strings.TrimSpace(attrs[j+1:])
			}
			k := contractKey(pkg, c.Key)
			if _, dup := ss.Contracts[k]; dup {
				return fail(it, "duplicate contract for "+k)
			}
			ss.Contracts[k] = c
			cur = c
		case "end":
			cur = nil
		case "requires", "ensures":
			if cur == nil {
				return fail(it, kw+" outside func")
			}
			cl, err := parseClause(kw, rest, tags, file, it.line)
			if err != nil {
				return fail(it, err.Error())
			}
			if kw == "requires" {
				cur.Requires = append(cur.Requires, cl)
			} else {
				cur.Ensures = append(cur.Ensures, cl)
			}
		case "modifies":
			if cur == nil {
				return fail(it, "modifies outside func")
			}
			if strings.TrimSpace(rest) == "*" {
				cur.ModAll = true
				break
			}
			for _, part := range splitTop(rest, ',') {
				e, err := parseSpecExpr(part)
				if err != nil {
					return fail(it, err.Error())
				}
				cur.Modifies = append(cur.Modifies, e)
			}
		case "ownmemory":
			if cur == nil {
				return fail(it, "ownmemory outside func")
			}
			for _, part := range splitTop(rest, ',') {
				e, err := parseSpecExpr(part)
				if err != nil {
					return fail(it, err.Error())
				}
				cur.OwnMemory = append(cur.OwnMemory, e)
			}
		case "loop":
			if cur == nil {
				return fail(it, "loop outside func")
			}
			nstr, r2 := splitFirst(rest)
			n := nstr
			ls := cur.Loops[n]
			if ls == nil {
				ls = &LoopSpec{}
				cur.Loops[n] = ls
			}
			k2, r3 := splitFirst(r2)
			var ltags []string
			if i := strings.Index(k2, "["); i >= 0 && strings.HasSuffix(k2, "]") {
				ltags = strings.Split(k2[i+1:len(k2)-1], ",")
				k2 = k2[:i]
			}
			switch k2 {
			case "invariant":
				cl, err := parseClause("invariant", r3, ltags, file, it.line)
				if err != nil {
					return fail(it, err.Error())
				}
				ls.Invariants = append(ls.Invariants, cl)
			case "decreases":
				cl, err := parseClause("decreases", r3, ltags, file, it.line)
				if err != nil {
					return fail(it, err.Error())
				}
				ls.Decreases = cl
			case "unroll":
				ls.Unroll = true
			case "modifies":
				for _, part := range splitTop(r3, ',') {
					e, err := parseSpecExpr(part)
					if err != nil {
						return fail(it, err.Error())
					}
					ls.Modifies = append(ls.Modifies, e)
				}
			default:
				return fail(it, "unknown loop clause "+k2)
			}
		case "let", "update":
			if cur == nil {
				return fail(it, kw+" outside func")
			}
			i := strings.Index(rest, "=")
			if i < 0 {
				return fail(it, kw+" needs name = expr")
			}
			e, err := parseSpecExpr(rest[i+1:])
			if err != nil {
				return fail(it, err.Error())
			}
			d := LetDef{Name: strings.TrimSpace(rest[:i]), Expr: e}
			if kw == "let" {
				cur.Lets = append(cur.Lets, d)
			} else {
				cur.Ghosts = append(cur.Ghosts, d)
			}
		case "any":
			if cur == nil {
				return fail(it, "any outside func")
			}
			f := strings.Fields(rest)
			if len(f) == 0 || len(f) > 2 {
				return fail(it, "any NAME [TYPE]")
			}
			b := binder{Name: f[0], Type: "int"}
			if len(f) == 2 {
				b.Type = f[1]
			}
			cur.Anys = append(cur.Anys, b)
		case "cases":
			if cur == nil {
				return fail(it, "cases outside func")
			}
			i := strings.Index(rest, ":")
			if i < 0 {
				return fail(it, "cases EXPR: v1, v2, ...")
			}
			ex, err := parseSpecExpr(rest[:i])
			if err != nil {
				return fail(it, err.Error())
			}
			cs := CaseSplit{Expr: ex}
			for _, part := range splitTop(rest[i+1:], ',') {
				v, err := parseSpecExpr(part)
				if err != nil {
					return fail(it, err.Error())
				}
				cs.Values = append(cs.Values, v)
			}
			cur.Cases = append(cur.Cases, cs)
		case "wrapok":
			if cur == nil {
				return fail(it, "wrapok outside func")
			}
			cur.WrapOK = append(cur.WrapOK, strings.Join(strings.Fields(rest), ""))
		case "interior":
			// interior TYPE...: every *TYPE points at an element of a []TYPE backing array
			for _, tn := range strings.Fields(rest) {
				pn := pkg
				if i := strings.LastIndex(pn, "/"); i >= 0 {
					pn = pn[i+1:]
				}
				interiorTypes[pn+"."+tn] = true
			}
		case "typeinv":
			// typeinv TYPE: expr(this)   -- assumed for every non-nil *TYPE; its fields must be immutable
			i := strings.Index(rest, ":")
			if i < 0 {
				return fail(it, "typeinv TYPE: expr")
			}
			e, err := parseSpecExpr(rest[i+1:])
			if err != nil {
				return fail(it, err.Error())
			}
			k := pkg + "#" + strings.TrimSpace(rest[:i])
			ss.TypeInvs[k] = append(ss.TypeInvs[k], e)
		case "ghostinit":
			// ghostinit TYPE: ghostmap[this] = expr
			i := strings.Index(rest, ":")
			j := strings.Index(rest, "=")
			if i < 0 || j < i {
				return fail(it, "ghostinit TYPE: map[this] = expr")
			}
			tname := strings.TrimSpace(rest[:i])
			lhs := strings.TrimSpace(rest[i+1 : j])
			k := strings.Index(lhs, "[")
			if k < 0 {
				return fail(it, "ghostinit TYPE: map[this] = expr")
			}
			e, err := parseSpecExpr(rest[j+1:])
			if err != nil {
				return fail(it, err.Error())
			}
			ss.GhostInits[pkg+"#"+tname] = append(ss.GhostInits[pkg+"#"+tname], LetDef{Name: strings.TrimSpace(lhs[:k]), Expr: e})
		case "safetytags":
			if cur == nil {
				return fail(it, "safetytags outside func")
			}
			cur.SafetyTags = splitList(rest)
		case "tags":
			if cur == nil {
				return fail(it, "tags outside func")
			}
			cur.Tags = splitList(rest)
		case "inline":
			if cur == nil {
				return fail(it, "inline outside func")
			}
			cur.Inline = true
		case "trusted":
			if cur == nil {
				return fail(it, "trusted outside func")
			}
			cur.Trusted = true
		case "pure":
			if cur == nil {
				return fail(it, "pure outside func")
			}
			cur.Pure = true
		case "mode":
			if cur == nil {
				return fail(it, "mode outside func")
			}
			cur.Mode = strings.TrimSpace(rest)
		case "alloc":
			if cur == nil {
				return fail(it, "alloc outside func")
			}
			e, err := parseSpecExpr(rest)
			if err != nil {
				return fail(it, err.Error())
			}
			cur.Alloc = e
		case "implements":
			if cur == nil {
				return fail(it, "implements outside func")
			}
			cur.Impl = append(cur.Impl, splitList(rest)...)
		case "noeffect":
			for _, n := range strings.Fields(rest) {
				ss.NoEffect[n] = true
			}
		case "const":
			i := strings.Index(rest, "=")
			if i < 0 {
				return fail(it, "const needs name = expr")
			}
			e, err := parseSpecExpr(rest[i+1:])
			if err != nil {
				return fail(it, err.Error())
			}
			ss.Consts[strings.TrimSpace(rest[:i])] = e
		case "ghost":
			f := strings.Fields(rest)
			if len(f) != 2 && !(len(f) == 3 && f[2] == "log") {
				return fail(it, "ghost NAME TYPE [log]")
			}
			ss.Ghosts[f[0]] = &GhostDecl{Name: f[0], Type: f[1], Log: len(f) == 3}
		case "spec", "pred":
			sf, err := parseSpecFunc(kw, rest)
			if err != nil {
				return fail(it, err.Error())
			}
			sf.File, sf.Line = file, it.line
			sf.Pkg = pkg
			if _, dup := ss.Funcs[pkg+"#"+sf.Name]; dup {
				return fail(it, "duplicate spec function "+sf.Name)
			}
			ss.Funcs[pkg+"#"+sf.Name] = sf
		case "axiom":
			i := strings.Index(rest, ":")
			if i < 0 {
				return fail(it, "axiom NAME: expr")
			}
			e, err := parseSpecExpr(rest[i+1:])
			if err != nil {
				return fail(it, err.Error())
			}
			ss.Axioms = append(ss.Axioms, &Axiom{Name: strings.TrimSpace(rest[:i]), Pkg: pkg, Expr: e, File: file, Line: it.line})
		default:
			return fail(it, "unknown keyword "+kw)
		}
	}
	return nil
}

func contractKey(pkg, key string) string {
	if pkg == "" {
		return key
	}
	return pkg + "#" + key
}

func splitFirst(s string) (string, string) {
	s = strings.TrimSpace(s)
	// keyword may carry [tags]
	depth := 0
	for i, c := range s {
		switch c {
		case '[':
			depth++
		case ']':
			depth--
		case ' ', '\t':
			if depth == 0 {
				return s[:i], strings.TrimSpace(s[i+1:])
			}
		}
	}
	return s, ""
}

func splitList(s string) []string {
	var out []string
	for _, p := range strings.Split(s, ",") {
		p = strings.TrimSpace(p)
		if p != "" {
			out = append(out, p)
		}
	}
	return out
}

// splitTop splits at sep outside brackets.
func splitTop(s string, sep byte) []string {
	var out []string
	depth := 0
	start := 0
	for i := 0; i < len(s); i++ {
		switch s[i] {
		case '(', '[':
			depth++
		case ')', ']':
			depth--
		default:
			if s[i] == sep && depth == 0 {
				out = append(out, strings.TrimSpace(s[start:i]))
				start = i + 1
			}
		}
	}
	if t := strings.TrimSpace(s[start:]); t != "" {
		out = append(out, t)
	}
	return out
}

func parseClause(kind, rest string, tags []string, file string, line int) (*Clause, error) {
	label := ""
	if i := strings.LastIndex(rest, " @"); i >= 0 {
		cand := strings.TrimSpace(rest[i+2:])
		if cand != "" && !strings.ContainsAny(cand, " ()[]") {
			label = cand
			rest = rest[:i]
		}
	}
	e, err := parseSpecExpr(rest)
	if err != nil {
		return nil, err
	}
	if label == "" {
		label = shortText(rest)
	}
	return &Clause{Kind: kind, Tags: tags, Label: label, Expr: e, Src: strings.TrimSpace(rest), File: file, Line: line}, nil
}

func shortText(s string) string {
	s = strings.Join(strings.Fields(s), "")
	if len(s) > 48 {
		s = s[:48]
	}
	return s
}

// spec NAME(a T, b T) R [= body]    |   pred NAME(a T) := body
func parseSpecFunc(kw, rest string) (*SpecFunc, error) {
	i := strings.Index(rest, "(")
	if i < 0 {
		return nil, fmt.Errorf("spec NAME(params) TYPE")
	}
	sf := &SpecFunc{Name: strings.TrimSpace(rest[:i])}
	depth := 0
	j := i
	for ; j < len(rest); j++ {
		if rest[j] == '(' {
			depth++
		} else if rest[j] == ')' {
			depth--
			if depth == 0 {
				break
			}
		}
	}
	for _, p := range splitList(rest[i+1 : j]) {
		f := strings.Fields(p)
		b := binder{Name: f[0], Type: "int"}
		if len(f) > 1 {
			b.Type = f[1]
		}
		sf.Params = append(sf.Params, b)
	}
	tail := strings.TrimSpace(rest[j+1:])
	sf.Result = "int"
	if kw == "pred" {
		sf.Result = "bool"
	}
	body := ""
	if k := strings.Index(tail, ":="); k >= 0 {
		body = tail[k+2:]
		tail = strings.TrimSpace(tail[:k])
	} else if k := strings.Index(tail, "="); k >= 0 && (k == 0 || tail[k-1] != '=' && tail[k-1] != '!' && tail[k-1] != '<' && tail[k-1] != '>') {
		body = tail[k+1:]
		tail = strings.TrimSpace(tail[:k])
	}
	if tail != "" {
		sf.Result = tail
	}
	if strings.TrimSpace(body) != "" {
		e, err := parseSpecExpr(body)
		if err != nil {
			return nil, err
		}
		sf.Body = e
	}
	return sf, nil
}

func specSort(t string) *Sort {
	switch t {
	case "int", "ref", "byte":
		return SInt
	case "bool":
		return SBool
	case "str", "string":
		return SStr
	case "[]int", "map[int]int", "[]byte", "[]ref":
		return SArray(SInt)
	case "[]bool", "map[int]bool":
		return SArray(SBool)
	case "[][]int", "map[int][]int", "map[int]map[int]int":
		return SArray(SArray(SInt))
	case "[]str", "map[int]str":
		return SArray(SStr)
	}
	panic(ContractError{"unknown spec type " + t})
}

// lookupFunc resolves a spec function name: the current package first, then library specs, then a
// unique definition in any other package. Package-scoped definitions make abstract predicates
// possible: uninterpreted in one package, defined in the package that owns the representation.
func (ss *SpecSet) lookupFunc(name, pkg string) *SpecFunc {
	if f, ok := ss.Funcs[pkg+"#"+name]; ok {
		return f
	}
	if f, ok := ss.Funcs["#"+name]; ok {
		return f
	}
	var found *SpecFunc
	for _, f := range ss.Funcs {
		if f.Name == name {
			if found != nil && found.Body != nil && f.Body != nil {
				return nil // ambiguous
			}
			if found == nil || f.Body != nil {
				found = f
			}
		}
	}
	return found
}

// allClauses: every requires / ensures / invariant / decreases clause of the contract.
func (c *Contract) allClauses() []*Clause {
	var out []*Clause
	out = append(out, c.Requires...)
	out = append(out, c.Ensures...)
	for _, ls := range c.Loops {
		out = append(out, ls.Invariants...)
		if ls.Decreases != nil {
			out = append(out, ls.Decreases)
		}
	}
	return out
}
