package govc

import (
	"fmt"
	"go/ast"
	"go/types"
	"sort"
	"strings"
)

// State is one symbolic path state.
type State struct {
	store  map[*Cell]Value
	heap   map[string]*Term // family.path -> Array Int S
	mem    map[string]*Term // family.path -> Array Int (Array Int S)
	ghost  map[string]*Term
	pc     []*Term
	pcset  map[string]bool
	defers []*deferred
	quiet  int                     // >0: loads do not add range assumptions (spec evaluation under binders)
	dead   bool                    // path condition became syntactically false
	pre    map[*ast.CallExpr]Value // values of nested calls already executed in place for the current statement
}

func newState() *State {
	return &State{store: map[*Cell]Value{}, heap: map[string]*Term{}, mem: map[string]*Term{},
		ghost: map[string]*Term{}, pcset: map[string]bool{}}
}

func (s *State) clone() *State {
	n := &State{store: make(map[*Cell]Value, len(s.store)), heap: make(map[string]*Term, len(s.heap)),
		mem: make(map[string]*Term, len(s.mem)), ghost: make(map[string]*Term, len(s.ghost)),
		pcset: make(map[string]bool, len(s.pcset)), dead: s.dead}
	for k, v := range s.store {
		n.store[k] = v
	}
	for k, v := range s.heap {
		n.heap[k] = v
	}
	for k, v := range s.mem {
		n.mem[k] = v
	}
	for k, v := range s.ghost {
		n.ghost[k] = v
	}
	for k := range s.pcset {
		n.pcset[k] = true
	}
	n.pc = append([]*Term{}, s.pc...)
	n.defers = append([]*deferred{}, s.defers...)
	if len(s.pre) > 0 {
		n.pre = make(map[*ast.CallExpr]Value, len(s.pre))
		for k, v := range s.pre {
			n.pre[k] = v
		}
	}
	return n
}

func (s *State) assume(t *Term) {
	if t.isTrue() {
		return
	}
	if t.isFalse() {
		s.dead = true
	}
	if t.Op == "and" {
		for _, a := range t.Args {
			s.assume(a)
		}
		return
	}
	k := t.String()
	if s.pcset[k] {
		return
	}
	s.pcset[k] = true
	s.pc = append(s.pc, t)
}

func (s *State) heapMap(key string, srt *Sort) *Term {
	if t, ok := s.heap[key]; ok {
		return t
	}
	return mkVar("H!"+key, SArray(srt))
}

func (s *State) memMap(key string, srt *Sort) *Term {
	if t, ok := s.mem[key]; ok {
		return t
	}
	return mkVar("M!"+key, SArray(SArray(srt)))
}

func (s *State) ghostVar(name string, srt *Sort) *Term {
	if t, ok := s.ghost[name]; ok {
		return t
	}
	return mkVar("G!"+name, srt)
}

// ---------------------------------------------------------------------------------------------
// Fresh names
// ---------------------------------------------------------------------------------------------

type namer struct{ n int }

func (nm *namer) fresh(base string, s *Sort) *Term {
	nm.n++
	return mkVar(fmt.Sprintf("%s!%d", base, nm.n), s)
}

// ---------------------------------------------------------------------------------------------
// Loading and storing through locations
// ---------------------------------------------------------------------------------------------

func (e *Exec) loadLoc(st *State, l Loc) Value {
	switch x := l.(type) {
	case *LocalLoc:
		v, ok := st.store[x.Cell]
		if !ok {
			panic(fmt.Sprintf("read of unbound local %s", x.Cell.Name))
		}
		for _, p := range x.Path {
			sv, ok := v.(StructVal)
			if !ok {
				panic(unsupported("field path through non-struct local"))
			}
			v = sv.Fields[p]
		}
		return v
	case *HeapLoc:
		v := buildValue(x.Typ, "", func(path string, srt *Sort, typ types.Type) *Term {
			t := mkSelect(st.heapMap(x.Fam+x.Path+path, srt), x.Ref)
			e.noteLoaded(st, t, typ, path)
			return t
		})
		e.noteShape(st, v)
		return v
	case *MemLoc:
		v := buildValue(x.Typ, "", func(path string, srt *Sort, typ types.Type) *Term {
			t := mkSelect(mkSelect(st.memMap(x.Fam+x.Path+path, srt), x.Arr), x.Idx)
			e.noteLoaded(st, t, typ, path)
			return t
		})
		e.noteShape(st, v)
		return v
	}
	panic("loadLoc")
}

// noteShape adds the representation invariant of slice headers read from heap/memory.
func (e *Exec) noteShape(st *State, v Value) {
	if st.quiet > 0 {
		return
	}
	switch x := v.(type) {
	case SliceVal:
		st.assume(mkGe(x.Off, tZero))
		st.assume(mkGe(x.Len, tZero))
		st.assume(mkLe(x.Len, x.Cap))
		st.assume(mkImplies(mkEq(x.Arr, tZero), mkEq(x.Cap, tZero)))
		st.assume(mkLe(mkAdd(x.Off, x.Cap), mkInt64(1<<50)))
	case StructVal:
		for _, f := range x.Fields {
			e.noteShape(st, f)
		}
	case ArrayVal:
		st.assume(mkGt(x.Arr, tZero))
	}
}

// noteLoaded adds the type invariant of a value read from heap/memory to the path condition.
func (e *Exec) noteLoaded(st *State, t *Term, typ types.Type, path string) {
	if st.quiet > 0 {
		return
	}
	if typ == nil { // slice/array header component
		n := len(path)
		switch {
		case n >= 4 && path[n-4:] == "$arr":
			st.assume(mkGe(t, tZero))
			st.assume(mkLe(t, st.ghostVar(allocGhost, SInt)))
		}
		return
	}
	if _, isInterior := interiorElem(typ); isInterior {
		a := mkApp("ptr!arr", SInt, t)
		if t.Op == "app" && t.Name == "ptr!mk" {
			a = t.Args[0]
		}
		st.assume(mkGe(a, tZero))
		st.assume(mkLe(a, st.ghostVar(allocGhost, SInt)))
		return
	}
	switch reprOf(typ) {
	case rInt:
		st.assume(inRangeTerm(t, typ))
	case rRef, rOpaque:
		// every reference stored in the heap was allocated before it is read
		st.assume(mkGe(t, tZero))
		st.assume(mkLe(t, st.ghostVar(allocGhost, SInt)))
	}
}

func (e *Exec) storeLoc(st *State, l Loc, v Value) {
	switch x := l.(type) {
	case *LocalLoc:
		if len(x.Path) == 0 {
			st.store[x.Cell] = v
		} else {
			st.store[x.Cell] = setPath(st.store[x.Cell], x.Path, v)
		}
		if r, ok := e.localMirror[x.Cell]; ok {
			e.storeLoc(st, &HeapLoc{Fam: heapFamily(x.Cell.Typ), Ref: r, Typ: x.Cell.Typ}, st.store[x.Cell])
		}
	case *HeapLoc:
		flattenValue(v, "", func(path string, t *Term) {
			key := x.Fam + x.Path + path
			st.heap[key] = mkStore(st.heapMap(key, t.Sort), x.Ref, t)
		})
	case *MemLoc:
		flattenValue(v, "", func(path string, t *Term) {
			key := x.Fam + x.Path + path
			m := st.memMap(key, t.Sort)
			st.mem[key] = mkStore(m, x.Arr, mkStore(mkSelect(m, x.Arr), x.Idx, t))
		})
	default:
		panic("storeLoc")
	}
}

func setPath(v Value, path []string, nv Value) Value {
	if len(path) == 0 {
		return nv
	}
	sv, ok := v.(StructVal)
	if !ok {
		panic(unsupported("field store through non-struct local"))
	}
	nf := make(map[string]Value, len(sv.Fields))
	for k, f := range sv.Fields {
		nf[k] = f
	}
	nf[path[0]] = setPath(sv.Fields[path[0]], path[1:], nv)
	return StructVal{Fields: nf, Typ: sv.Typ}
}

// sliceElemLoc gives the location of element i of a slice / array value.
func sliceElemLoc(v Value, i *Term) *MemLoc {
	switch x := v.(type) {
	case SliceVal:
		et := x.Typ.Underlying().(*types.Slice).Elem()
		return &MemLoc{Fam: memFamily(et), Arr: x.Arr, Idx: mkAdd(x.Off, i), Typ: et}
	case ArrayVal:
		et := x.Typ.Underlying().(*types.Array).Elem()
		return &MemLoc{Fam: memFamily(et), Arr: x.Arr, Idx: i, Typ: et}
	}
	panic(unsupported(fmt.Sprintf("index of %T", v)))
}

// ---------------------------------------------------------------------------------------------
// Allocation
// ---------------------------------------------------------------------------------------------

const allocGhost = "$alloc"

// freshRef returns a reference distinct from every earlier one (and from nil).
func (e *Exec) freshRef(st *State, base string) *Term {
	cur := st.ghostVar(allocGhost, SInt)
	r := e.nm.fresh(base, SInt)
	st.assume(mkGt(r, cur))
	st.assume(mkGt(r, tZero))
	st.ghost[allocGhost] = r
	return r
}

// freshArray allocates a backing-array id and states that no slice header stored in memory or in the
// heap refers to it yet (a fresh array is unreachable): needed under quantifiers over stored slices,
// where the per-load fact "a stored reference was allocated earlier" is not available.
func (e *Exec) freshArray(st *State, base string, elem types.Type) *Term {
	r := e.freshRef(st, base)
	for _, k := range e.prog.arrLeafKeys(memFamily(elem)) {
		m := st.memMap(k, SInt)
		a, i := mkVar("a!fr", SInt), mkVar("i!fr", SInt)
		st.assume(mkForall([]*Term{a, i}, mkNe(mkSelect(mkSelect(m, a), i), r), mkSelect(mkSelect(m, a), i)))
		h := st.heapMap(k, SInt)
		x := mkVar("x!fr", SInt)
		st.assume(mkForall([]*Term{x}, mkNe(mkSelect(h, x), r), mkSelect(h, x)))
	}
	return r
}

// knownRef states that r was allocated before now (or is nil).
func (e *Exec) knownRef(st *State, r *Term) {
	st.assume(mkGe(r, tZero))
	st.assume(mkLe(r, st.ghostVar(allocGhost, SInt)))
}

// symbolicValue creates an unconstrained-but-well-typed value of type t (used for parameters,
// call results and havoc).
func (e *Exec) symbolicValue(st *State, t types.Type, base string) Value {
	v := buildValue(t, "", func(path string, srt *Sort, typ types.Type) *Term {
		return e.nm.fresh(base+path, srt)
	})
	e.assumeWellTyped(st, v)
	return v
}

func (e *Exec) assumeWellTyped(st *State, v Value) {
	switch x := v.(type) {
	case Scalar:
		switch reprOf(x.Typ) {
		case rInt:
			st.assume(inRangeTerm(x.T, x.Typ))
		case rRef, rOpaque:
			e.knownRef(st, x.T)
		case rString:
			st.assume(mkGe(strLen(x.T), tZero))
		}
	case StructVal:
		for _, f := range structFields(x.Typ) {
			e.assumeWellTyped(st, x.Fields[f.Name()])
		}
	case SliceVal:
		e.knownRef(st, x.Arr)
		st.assume(mkGe(x.Off, tZero))
		st.assume(mkGe(x.Len, tZero))
		st.assume(mkLe(x.Len, x.Cap))
		st.assume(mkImplies(mkEq(x.Arr, tZero), mkEq(x.Cap, tZero)))
		st.assume(mkLe(mkAdd(x.Off, x.Cap), mkInt64(1<<50)))
	case ArrayVal:
		e.knownRef(st, x.Arr)
		st.assume(mkGt(x.Arr, tZero))
	case PtrVal:
		if ml, ok := x.Loc.(*MemLoc); ok {
			e.knownRef(st, ml.Arr)
		}
	}
}

func strLen(s *Term) *Term          { return mkApp("slen", SInt, s) }
func strByte(s, i *Term) *Term      { return mkApp("sbyte", SInt, s, i) }
func dynType(ref *Term) *Term       { return mkApp("dyntype", SInt, ref) }
func typeIdTerm(t types.Type) *Term { return mkApp("type!"+typeKey(t), SInt) }

// zeroValue builds the zero value of t. Arrays get a fresh zero-filled backing array.
func (e *Exec) zeroValue(st *State, t types.Type) Value {
	switch reprOf(t) {
	case rInt, rRef:
		if et, ok := interiorElem(t); ok {
			return ptrFromTerm(tZero, et, t)
		}
		return Scalar{tZero, t}
	case rOpaque:
		// an opaque library struct value: fresh identity (e.g. var buf bytes.Buffer)
		r := e.freshRef(st, "obj")
		e.lib.onZeroOpaque(e, st, t, r)
		return Scalar{r, t}
	case rBool:
		return Scalar{tFalse, t}
	case rString:
		return Scalar{e.strLit(""), t}
	case rStruct:
		sv := StructVal{Fields: map[string]Value{}, Typ: t}
		for _, f := range structFields(t) {
			sv.Fields[f.Name()] = e.zeroValue(st, f.Type())
		}
		return sv
	case rSlice:
		return SliceVal{tZero, tZero, tZero, tZero, t}
	case rArray:
		a := t.Underlying().(*types.Array)
		id := e.freshRef(st, "arr")
		av := ArrayVal{Arr: id, N: a.Len(), Typ: t}
		e.fillZero(st, a.Elem(), id, tZero, mkInt64(a.Len()))
		return av
	}
	panic(unsupported(fmt.Sprintf("zero value of %s", t)))
}

// fillZero states that elements [from, from+n) of array id hold the zero value of elem type.
func (e *Exec) fillZero(st *State, elem types.Type, id, from, n *Term) {
	var ls []leaf
	leavesOf(elem, "", &ls)
	fam := memFamily(elem)
	for _, l := range ls {
		var z *Term
		switch l.Sort.Kind {
		case KInt:
			z = tZero
		case KBool:
			z = tFalse
		default:
			z = e.strLit("")
		}
		if l.Typ != nil && reprOf(l.Typ) == rOpaque {
			continue // opaque zero values are not modelled
		}
		key := fam + l.Path
		m := st.memMap(key, l.Sort)
		if n.isInt() && n.Val.IsInt64() && n.Val.Int64() <= 64 {
			inner := mkSelect(m, id)
			for k := int64(0); k < n.Val.Int64(); k++ {
				inner = mkStore(inner, mkAdd(from, mkInt64(k)), z)
			}
			st.mem[key] = mkStore(m, id, inner)
			continue
		}
		// fresh inner array constrained by a quantified fact
		inner := e.nm.fresh("zeros", SArray(l.Sort))
		k := mkVar("k!z", SInt)
		st.assume(mkForall([]*Term{k}, mkImplies(mkAnd(mkLe(from, k), mkLt(k, mkAdd(from, n))), mkEq(mkSelect(inner, k), z)), mkSelect(inner, k)))
		st.mem[key] = mkStore(m, id, inner)
	}
}

// arrLeafKeys(fam): the heap / memory leaf keys that can hold the backing-array id of a slice whose
// element family is fam (fields of module structs, at any nesting depth). Computed once per family.
func (p *Program) arrLeafKeys(fam string) []string {
	if p.arrKeys == nil {
		p.arrKeys = map[string][]string{}
		var walk func(root string, t types.Type, path string, depth int)
		walk = func(root string, t types.Type, path string, depth int) {
			if depth > 6 {
				return
			}
			switch reprOf(t) {
			case rStruct:
				for _, f := range structFields(t) {
					walk(root, f.Type(), path+"."+f.Name(), depth+1)
				}
			case rSlice:
				et := t.Underlying().(*types.Slice).Elem()
				k := memFamily(et)
				p.arrKeys[k] = append(p.arrKeys[k], root+path+".$arr")
			}
		}
		var paths []string
		for path := range p.pkgs {
			paths = append(paths, path)
		}
		sort.Strings(paths)
		for _, path := range paths {
			if !strings.HasPrefix(path, modulePrefix) {
				continue
			}
			sc := p.pkgs[path].Types.Scope()
			for _, n := range sc.Names() {
				tn, ok := sc.Lookup(n).(*types.TypeName)
				if !ok || reprOf(tn.Type()) != rStruct {
					continue
				}
				if _, isNamed := tn.Type().(*types.Named); !isNamed {
					continue
				}
				walk(typeKey(tn.Type()), tn.Type(), "", 0)
			}
		}
	}
	return p.arrKeys[fam]
}
