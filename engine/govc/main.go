package govc

import (
	"encoding/json"
	"flag"
	"fmt"
	"go/types"
	"os"
	"path/filepath"
	"sort"
	"strings"
	"time"
)

type typesVar = types.Var

type PropEntry struct {
	Functions []string `json:"functions"`
	Level     string   `json:"level"`
	Note      string   `json:"note"`
	Trusted   []string `json:"trusted_base"`
	NotCov    []string `json:"not_covered"`
	Bounded   []string `json:"bounded"`
	Lemmas    []string   `json:"lemmas,omitempty"` // SMT-LIB files (relative to /verif) whose expected answer is unsat
	Effects   *effectCfg `json:"effects,omitempty"`
	EffectKind string    `json:"effect_kind,omitempty"`
	IOFrame   *ioFrameCfg `json:"io_frame,omitempty"` // additional frame obligations of an SMT-checked property (C01)
}

type KnownFinding struct {
	Property   string `json:"property"`
	Obligation string `json:"obligation"`
	What       string `json:"what"`
}

type KnownFile struct {
	Findings []KnownFinding `json:"findings"`
	Fixed    []string       `json:"fixed"`
}

func Main(args []string) int {
	if len(args) == 0 {
		fmt.Fprintln(os.Stderr, "usage: govc verify|check|replay …")
		return 2
	}
	switch args[0] {
	case "verify":
		return cmdVerify(args[1:])
	case "check":
		return cmdCheck(args[1:])
	case "replay":
		return cmdReplay(args[1:])
	}
	fmt.Fprintln(os.Stderr, "unknown command "+args[0])
	return 2
}

func loadAll(repo, verif string) (*Program, error) {
	return loadProgram(repo, verif, []string{"./pkg/...", "./internal/...", "./cmd/..."})
}

func (p *Program) findFuncs(names []string) ([]target, error) {
	var out []target
	for _, n := range names {
		i := strings.Index(n, ".")
		if i < 0 {
			return nil, fmt.Errorf("function name %q must be pkg.Key", n)
		}
		key := n[i+1:]
		altSpec := ""
		if j := strings.Index(key, "@"); j >= 0 {
			altSpec = key[j+1:]
			key = key[:j]
		}
		lit := 0
		if j := strings.LastIndex(key, "$"); j >= 0 {
			fmt.Sscanf(key[j+1:], "%d", &lit)
			key = key[:j]
		}
		f, _ := p.lookupFunc(n[:i], key)
		if f == nil {
			return nil, fmt.Errorf("function %s not found in /repo (contract target missing)", n)
		}
		tg := target{fn: f, lit: lit}
		if altSpec != "" {
			k := strings.Index(altSpec, ".")
			if k < 0 {
				return nil, fmt.Errorf("alternative contract %q must be pkg.Key", altSpec)
			}
			var ac *Contract
			for _, c := range p.specs.Contracts {
				if c.Pkg != "" && c.Key == altSpec[k+1:] {
					if pk := p.pkgs[c.Pkg]; pk != nil && pk.Types.Name() == altSpec[:k] {
						ac = c
					}
				}
			}
			if ac == nil {
				ac = p.specs.Contracts[altSpec] // library contract (e.g. io.Closer.Close)
			}
			if ac == nil {
				return nil, fmt.Errorf("contract %s not found", altSpec)
			}
			tg.alt, tg.altName = ac, altSpec
		}
		out = append(out, tg)
	}
	return out, nil
}

// dev command: verify named functions and print every obligation.
func cmdVerify(args []string) int {
	fs := flag.NewFlagSet("verify", flag.ExitOnError)
	repo := fs.String("repo", "/repo", "")
	verif := fs.String("verif", "/verif", "")
	timeout := fs.Int("timeout", 10, "")
	keep := fs.Bool("keep", false, "keep SMT files")
	verbose := fs.Bool("v", false, "")
	all := fs.Bool("all-solvers", false, "")
	fs.Parse(args)
	prog, err := loadAll(*repo, *verif)
	if err != nil {
		fmt.Fprintln(os.Stderr, err)
		return 2
	}
	names := fs.Args()
	if len(names) == 0 {
		for k, c := range prog.specs.Contracts {
			if !c.Lib {
				pk := prog.pkgs[c.Pkg]
				if pk != nil {
					names = append(names, pk.Types.Name()+"."+c.Key)
				}
			}
			_ = k
		}
		sort.Strings(names)
	}
	funcs, err := prog.findFuncs(names)
	if err != nil {
		fmt.Fprintln(os.Stderr, err)
		return 2
	}
	dir, _ := os.MkdirTemp("", "govc-smt-")
	if !*keep {
		defer os.RemoveAll(dir)
	} else {
		fmt.Println("SMT files in", dir)
	}
	bad := 0
	for _, f := range funcs {
		res := runVerify(prog, f)
		if res.err != nil {
			fmt.Printf("%-50s CONTRACT-ERROR %v\n", res.fr.Name, res.err)
			bad++
			continue
		}
		fr := res.fr
		if fr.Unsupported != "" {
			fmt.Printf("%-50s UNSUPPORTED %s\n", fr.Name, fr.Unsupported)
			bad++
			continue
		}
		if fr.Trusted {
			fmt.Printf("%-50s TRUSTED (not verified)\n", fr.Name)
			continue
		}
		prog.solveAll(dir, fr.Obls, *timeout, *all, 16)
		nd := 0
		for _, o := range fr.Obls {
			if o.Status == "discharged" {
				nd++
			}
		}
		fmt.Printf("%-50s %d/%d discharged, %d paths\n", fr.Name, nd, len(fr.Obls), fr.Paths)
		for _, o := range fr.Obls {
			if o.Status != "discharged" || *verbose {
				fmt.Printf("    %-12s %-8s %5.2fs %s  [%s:%d] %s\n", o.Status, o.Backend, o.TimeS, o.Name, filepath.Base(o.Pos.Filename), o.Pos.Line, strings.Join(o.Tags, ","))
				if o.Status == "failed" && len(o.Model) > 0 {
					fmt.Printf("        model: %s\n", modelSummary(o.Model))
				}
				if o.Status != "discharged" {
					bad++
					if *keep {
						fmt.Printf("        query: %s\n", o.Query)
					}
				}
			}
		}
		for _, w := range fr.Warnings {
			fmt.Println("    warning:", w)
		}
	}
	if bad > 0 {
		return 1
	}
	return 0
}

func modelSummary(m map[string]string) string {
	var ks []string
	for k := range m {
		if strings.Contains(k, "!") && !strings.HasPrefix(k, "G!") {
			// fresh names of parameters look like name!N
			if strings.HasPrefix(k, "H!") || strings.HasPrefix(k, "M!") {
				continue
			}
		}
		ks = append(ks, k)
	}
	sort.Strings(ks)
	var parts []string
	for _, k := range ks {
		parts = append(parts, k+"="+m[k])
		if len(parts) > 24 {
			break
		}
	}
	return strings.Join(parts, " ")
}

type verifyOut struct {
	fr  *FuncResult
	err error
}

func runVerify(prog *Program, f target) (out verifyOut) {
	out.fr = &FuncResult{Name: prog.declPkg[f.fn].Types.Name() + "." + funcKey(f.fn)}
	defer func() {
		if r := recover(); r != nil {
			if ce, ok := r.(ContractError); ok {
				out.err = ce
				return
			}
			panic(r)
		}
	}()
	out.fr = prog.verifyFunc(f)
	return out
}

// ---------------------------------------------------------------------------------------------
// check: the registered per-property command
// ---------------------------------------------------------------------------------------------

func cmdCheck(args []string) int {
	fs := flag.NewFlagSet("check", flag.ExitOnError)
	repo := fs.String("repo", "/repo", "")
	verif := fs.String("verif", "/verif", "")
	prop := fs.String("property", "", "")
	tier := fs.String("tier", "quick", "")
	fs.Parse(args)
	if t := os.Getenv("VERIF_TIER"); t != "" && *tier == "" {
		*tier = t
	}
	t0 := time.Now()
	code, err := runCheck(*repo, *verif, *prop, *tier, t0)
	if err != nil {
		// broken check: never a pass
		fmt.Printf("CHECK-BROKEN property=%s: %v\n", *prop, err)
		rp := filepath.Join(*verif, "replays", *prop, "check-broken.json")
		os.MkdirAll(filepath.Dir(rp), 0o755)
		b, _ := json.MarshalIndent(map[string]string{"property": *prop, "error": err.Error()}, "", " ")
		os.WriteFile(rp, b, 0o644)
		fmt.Printf("VIOLATION property=%s replay=%s no-failing-input-found\n", *prop, rp)
		return 2
	}
	return code
}
