package govc

import (
	"bytes"
	"context"
	"encoding/json"
	"fmt"
	"go/types"
	"os"
	"os/exec"
	"path/filepath"
	"regexp"
	"strconv"
	"strings"
	"time"
)

// ---------------------------------------------------------------------------------------------
// Replay: turn a solver model of a failed obligation into a concrete in-package test of the
// real function, injected with `go test -overlay`.
// ---------------------------------------------------------------------------------------------

type entryVal struct {
	Name string
	Recv bool
	Typ  types.Type
	Val  Value
}

type replayCtx struct {
	prog   *Program
	o      *Obligation
	fr     *FuncResult
	pinned map[string]string // term string -> value
	want   map[string]*Term
	seen   map[string]*Term // every term ever asked for (kept declared in later rounds)
	decls  []string
	objs   map[string]string // ref value -> variable name
	fail   string
	nvar   int
	pkg    *types.Package
	imports map[string]bool
	needFile bool
	ranges  []*Term
}

const maxReplayLen = 1 << 16

// value returns the model value of a term, or "" when it has to be fetched first.
func (rc *replayCtx) value(t *Term) (string, bool) {
	if t.isInt() {
		return t.Val.String(), true
	}
	if t.Op == "bool" {
		return strconv.FormatBool(t.B), true
	}
	k := t.String()
	if v, ok := rc.pinned[k]; ok {
		return v, true
	}
	rc.want[k] = t
	if rc.seen == nil {
		rc.seen = map[string]*Term{}
	}
	rc.seen[k] = t
	return "", false
}

func (rc *replayCtx) intValue(t *Term) (int64, bool) {
	v, ok := rc.value(t)
	if !ok {
		return 0, false
	}
	n, err := strconv.ParseInt(v, 10, 64)
	if err != nil {
		rc.fail = "model value out of int64 range: " + v
		return 0, false
	}
	return n, true
}

var getValueRe = regexp.MustCompile(`^\(\((.*)\s+(\(- \d+\)|-?\d+|true|false)\)\)$`)

// fetch runs the solver with the pinned values asserted and asks for the wanted terms.
func (rc *replayCtx) fetch(dir string, round int, bound bool) bool {
	if len(rc.want) == 0 {
		return true
	}
	qo := &Obligation{Name: rc.o.Name, Goal: rc.o.Goal, Hyps: append([]*Term{}, rc.o.Hyps...)}
	if rc.o.Projected {
		qo.Hyps = append([]*Term{}, rc.o.ProjHyps...)
	}
	// every symbol of a wanted term must be declared in the query even when no (remaining) hypothesis
	// mentions it: mention the term under an uninterpreted predicate
	for _, t := range rc.seen {
		if t.Sort != nil {
			qo.Hyps = append(qo.Hyps, mkApp("govc!want!"+sanitize(t.Sort.String()), SBool, t))
		}
	}
	q := rc.prog.buildQuery(qo, false)
	q = strings.Replace(q, "(set-logic ALL)", "(set-option :produce-models true)\n(set-logic ALL)", 1)
	q = strings.TrimSuffix(strings.TrimSpace(q), "(check-sat)")
	var b strings.Builder
	b.WriteString(q)
	for k, v := range rc.pinned {
		b.WriteString(fmt.Sprintf("(assert (= %s %s))\n", k, smtLit(v)))
	}
	var keys []string
	for k := range rc.want {
		keys = append(keys, k)
	}
	for _, r := range rc.ranges {
		if !r.isTrue() {
			b.WriteString("(assert " + r.String() + ")\n")
		}
	}
	// prefer small inputs: lengths and capacities of the wanted slices / strings at most 4096 when that is
	// satisfiable (a model with a 100000-element buffer means 100000 pinned cells in the next round)
	var small strings.Builder
	for _, k := range keys {
		if strings.Contains(k, "$len") || strings.Contains(k, "$cap") || strings.HasPrefix(k, "(slen ") {
			small.WriteString("(assert (<= " + k + " 4096))\n")
		}
	}
	var tail strings.Builder
	tail.WriteString("(check-sat)\n")
	for _, k := range keys {
		tail.WriteString("(get-value (" + k + "))\n")
	}
	file := filepath.Join(dir, fmt.Sprintf("replay-%d.smt2", round))
	var out bytes.Buffer
	for attempt := 0; attempt < 2; attempt++ {
		body := b.String()
		if attempt == 0 {
			if small.Len() == 0 {
				continue
			}
			body += small.String()
		}
		os.WriteFile(file, []byte(body+tail.String()), 0o644)
		ctx, cancel := context.WithTimeout(context.Background(), 45*time.Second)
		cmd := exec.CommandContext(ctx, "z3-new", "-T:40", file)
		out.Reset()
		cmd.Stdout = &out
		cmd.Stderr = &out
		cmd.Run()
		cancel()
		if strings.HasPrefix(strings.TrimSpace(out.String()), "sat") {
			break
		}
	}
	lines := strings.Split(strings.TrimSpace(out.String()), "\n")
	if len(lines) == 0 || strings.TrimSpace(lines[0]) != "sat" {
		rc.fail = "solver did not reproduce a model when fetching values: " + firstLines(out.String(), 2)
		return false
	}
	// get-value answers come in order, one (possibly multi-line) s-expression each
	rest := strings.Join(lines[1:], " ")
	answers := splitSexprs(rest)
	if len(answers) != len(keys) {
		rc.fail = fmt.Sprintf("unexpected get-value output (%d answers for %d terms)", len(answers), len(keys))
		return false
	}
	for i, a := range answers {
		a = strings.Join(strings.Fields(a), " ")
		// ((term value)): take the last atom / (- n)
		val := lastValue(a)
		if val == "" {
			rc.fail = "cannot parse model value: " + a + " in " + file
			return false
		}
		rc.pinned[keys[i]] = val
	}
	rc.want = map[string]*Term{}
	return true
}

func smtLit(v string) string {
	if strings.HasPrefix(v, "-") {
		return "(- " + v[1:] + ")"
	}
	return v
}

func splitSexprs(s string) []string {
	var out []string
	depth := 0
	start := -1
	for i := 0; i < len(s); i++ {
		switch s[i] {
		case '(':
			if depth == 0 {
				start = i
			}
			depth++
		case ')':
			depth--
			if depth == 0 && start >= 0 {
				out = append(out, s[start:i+1])
				start = -1
			}
		}
	}
	return out
}

func lastValue(a string) string {
	a = strings.TrimSuffix(strings.TrimSpace(a), "))")
	if strings.HasSuffix(a, ")") {
		// (- n)
		i := strings.LastIndex(a, "(- ")
		if i >= 0 {
			return "-" + strings.TrimSpace(strings.TrimSuffix(a[i+3:], ")"))
		}
		return ""
	}
	i := strings.LastIndexAny(a, " \t")
	if i < 0 {
		return ""
	}
	v := a[i+1:]
	if v == "true" || v == "false" {
		return v
	}
	if _, err := strconv.ParseInt(v, 10, 64); err == nil {
		return v
	}
	if _, ok := new(bigInt).SetString(v, 10); ok {
		return v
	}
	return ""
}

func (rc *replayCtx) newVar(base string) string {
	rc.nvar++
	return fmt.Sprintf("%s%d", base, rc.nvar)
}

func (rc *replayCtx) typeStr(t types.Type) string {
	return types.TypeString(t, func(p *types.Package) string {
		if p == rc.pkg {
			return ""
		}
		rc.imports[p.Path()] = true
		return p.Name()
	})
}

// goExpr renders a symbolic entry value as Go source. ok=false: more model values are needed
// (collected in rc.want) or the value cannot be rendered (rc.fail set).
func (rc *replayCtx) goExpr(v Value, t types.Type) (string, bool) {
	switch x := v.(type) {
	case Scalar:
		switch reprOf(t) {
		case rInt:
			val, ok := rc.value(x.T)
			if !ok {
				rc.ranges = append(rc.ranges, inRangeTerm(x.T, t))
				return "", false
			}
			return fmt.Sprintf("%s(%s)", rc.typeStr(t), val), true
		case rBool:
			val, ok := rc.value(x.T)
			if !ok {
				return "", false
			}
			return val, true
		case rString:
			n, ok := rc.intValue(strLen(x.T))
			if !ok {
				return "", false
			}
			if n < 0 || n > 4096 {
				rc.fail = "string too long for replay"
				return "", false
			}
			bs := make([]byte, n)
			all := true
			for i := int64(0); i < n; i++ {
				bv, ok := rc.intValue(strByte(x.T, mkInt64(i)))
				if !ok {
					all = false
					continue
				}
				bs[i] = byte(bv)
			}
			if !all {
				return "", false
			}
			return fmt.Sprintf("%s(%q)", rc.typeStr(t), string(bs)), true
		case rOpaque:
			return fmt.Sprintf("*new(%s)", rc.typeStr(t)), true
		case rRef:
			ref, ok := rc.intValue(x.T)
			if !ok {
				return "", false
			}
			if ref == 0 {
				if _, isP := t.Underlying().(*types.Pointer); isP {
					return fmt.Sprintf("(%s)(nil)", rc.typeStr(t)), true
				}
				return fmt.Sprintf("*new(%s)", rc.typeStr(t)), true
			}
			pt, isPtr := t.Underlying().(*types.Pointer)
			if !isPtr {
				return rc.ifaceExpr(x.T, ref, t)
			}
			key := fmt.Sprintf("%s@%d", typeKey(pt.Elem()), ref)
			if name, ok := rc.objs[key]; ok {
				return name, true
			}
			if reprOf(pt.Elem()) != rStruct {
				rc.fail = "pointer to " + pt.Elem().String() + " not supported in replay"
				return "", false
			}
			loc := &HeapLoc{Fam: heapFamily(pt.Elem()), Ref: x.T, Typ: pt.Elem()}
			inner := rc.loadInitial(loc)
			ex, ok := rc.goExpr(inner, pt.Elem())
			if !ok {
				return "", false
			}
			name := rc.newVar("obj")
			rc.objs[key] = name
			rc.decls = append(rc.decls, fmt.Sprintf("%s := &%s", name, strings.TrimPrefix(ex, "")))
			return name, true
		}
	case StructVal:
		var parts []string
		okAll := true
		for _, f := range structFields(t) {
			if f.Name() == "_" {
				continue
			}
			fe, ok := rc.goExpr(x.Fields[f.Name()], f.Type())
			if !ok {
				okAll = false
				continue
			}
			parts = append(parts, f.Name()+": "+fe)
		}
		if !okAll {
			return "", false
		}
		return fmt.Sprintf("%s{%s}", rc.typeStr(t), strings.Join(parts, ", ")), true
	case SliceVal:
		arr, ok1 := rc.intValue(x.Arr)
		n, ok2 := rc.intValue(x.Len)
		cp, ok3 := rc.intValue(x.Cap)
		if !ok1 || !ok2 || !ok3 {
			return "", false
		}
		if arr == 0 && cp == 0 {
			return fmt.Sprintf("%s(nil)", rc.typeStr(t)), true
		}
		if n > maxReplayLen || cp > maxReplayLen {
			rc.fail = fmt.Sprintf("slice of length %d / capacity %d too large for replay", n, cp)
			return "", false
		}
		et := t.Underlying().(*types.Slice).Elem()
		var elems []string
		okAll := true
		for i := int64(0); i < n; i++ {
			loc := sliceElemLoc(x, mkInt64(i))
			ev := rc.loadInitial(loc)
			ee, ok := rc.goExpr(ev, et)
			if !ok {
				okAll = false
				if rc.fail != "" {
					return "", false
				}
				continue
			}
			elems = append(elems, ee)
		}
		if !okAll {
			return "", false
		}
		lit := fmt.Sprintf("%s{%s}", rc.typeStr(t), strings.Join(elems, ", "))
		if reprOf(et) == rInt && n > 0 {
			// compact form for byte-like slices
			lit = fmt.Sprintf("%s{%s}", rc.typeStr(t), strings.Join(stripConv(elems), ", "))
		}
		if cp > n {
			return fmt.Sprintf("append(make(%s, 0, %d), %s...)", rc.typeStr(t), cp, lit), true
		}
		return lit, true
	case ArrayVal:
		et := t.Underlying().(*types.Array).Elem()
		var elems []string
		okAll := true
		for i := int64(0); i < x.N; i++ {
			ev := rc.loadInitial(sliceElemLoc(x, mkInt64(i)))
			ee, ok := rc.goExpr(ev, et)
			if !ok {
				okAll = false
				continue
			}
			elems = append(elems, ee)
		}
		if !okAll {
			return "", false
		}
		return fmt.Sprintf("%s{%s}", rc.typeStr(t), strings.Join(elems, ", ")), true
	}
	rc.fail = fmt.Sprintf("value of kind %T (type %s) not supported in replay", v, t)
	return "", false
}

func stripConv(elems []string) []string {
	out := make([]string, len(elems))
	for i, e := range elems {
		if j := strings.Index(e, "("); j >= 0 && strings.HasSuffix(e, ")") {
			out[i] = e[j+1 : len(e)-1]
		} else {
			out[i] = e
		}
	}
	return out
}

// loadInitial loads from the initial heap / memory (the H!/M! variables of the entry state).
func (rc *replayCtx) loadInitial(l Loc) Value {
	switch x := l.(type) {
	case *HeapLoc:
		return buildValue(x.Typ, "", func(path string, srt *Sort, typ types.Type) *Term {
			return mkSelect(mkVar("H!"+x.Fam+x.Path+path, SArray(srt)), x.Ref)
		})
	case *MemLoc:
		return buildValue(x.Typ, "", func(path string, srt *Sort, typ types.Type) *Term {
			return mkSelect(mkSelect(mkVar("M!"+x.Fam+x.Path+path, SArray(SArray(srt))), x.Arr), x.Idx)
		})
	}
	panic("loadInitial")
}

// ifaceExpr renders an interface value from the ghost file model (afero.File, io.Reader …).
func (rc *replayCtx) ifaceExpr(ref *Term, refVal int64, t types.Type) (string, bool) {
	key := fmt.Sprintf("iface@%d", refVal)
	if name, ok := rc.objs[key]; ok {
		return name, true
	}
	// only interfaces a file can stand in for (they need nothing beyond Read/ReadAt/Seek/Close/...): others stay nil
	if it, ok := t.Underlying().(*types.Interface); ok {
		fileMethods := map[string]bool{"Read": true, "ReadAt": true, "Seek": true, "Close": true, "Write": true, "WriteAt": true, "Name": true,
			"Readdir": true, "Readdirnames": true, "Stat": true, "Sync": true, "Truncate": true, "WriteString": true}
		for i := 0; i < it.NumMethods(); i++ {
			if !fileMethods[it.Method(i).Name()] {
				return fmt.Sprintf("*new(%s)", rc.typeStr(t)), true
			}
		}
	}
	specs := rc.prog.specs
	if _, ok := specs.Ghosts["fsize"]; !ok {
		rc.fail = "no ghost file model for interface " + t.String()
		return "", false
	}
	size, ok1 := rc.intValue(mkSelect(mkVar("G!fsize", SArray(SInt)), ref))
	pos, ok2 := rc.intValue(mkSelect(mkVar("G!fpos", SArray(SInt)), ref))
	if !ok1 || !ok2 {
		return "", false
	}
	if size < 0 || size > 1<<24 {
		rc.fail = fmt.Sprintf("ghost file of size %d too large for replay", size)
		return "", false
	}
	content := mkSelect(mkVar("G!fcontent", SArray(SArray(SInt))), ref)
	// only the bytes the model constrains matter; fetch a sparse set: ask for all when small
	var assigns []string
	okAll := true
	limit := size
	if limit > 1<<13 {
		limit = 1 << 13
	}
	for i := int64(0); i < limit; i++ {
		bv, ok := rc.intValue(mkSelect(content, mkInt64(i)))
		if !ok {
			okAll = false
			continue
		}
		if bv != 0 {
			assigns = append(assigns, fmt.Sprintf("%d: %d", i, byte(bv)))
		}
	}
	if !okAll {
		return "", false
	}
	name := rc.newVar("file")
	rc.objs[key] = name
	rc.decls = append(rc.decls, fmt.Sprintf("%s := newGovcFile(%d, map[int64]byte{%s}, %d)", name, size, strings.Join(assigns, ", "), pos))
	rc.needFile = true
	return name, true
}

type bigInt = bigIntAlias

// ---------------------------------------------------------------------------------------------

type replayFile struct {
	Property   string            `json:"property"`
	Obligation string            `json:"obligation"`
	Kind       string            `json:"kind"`
	Function   string            `json:"function"`
	Position   string            `json:"position"`
	Text       string            `json:"checked_text"`
	Goal       string            `json:"goal"`
	Solver     string            `json:"solver_status"`
	Backend    string            `json:"backend"`
	Output     string            `json:"solver_output"`
	Query      string            `json:"smt_query"`
	Model      map[string]string `json:"model,omitempty"`
	Outcome    string            `json:"outcome"` // confirmed | model-not-reproduced | no-model | not-replayable
	Detail     string            `json:"detail,omitempty"`
	TestSource string            `json:"test_source,omitempty"`
	PackageDir string            `json:"package_dir,omitempty"`
	TestOutput string            `json:"test_output,omitempty"`
}

func (p *Program) makeReplay(verif, repo, prop string, o *Obligation, tier string) (string, bool) {
	dir := filepath.Join(verif, "replays", prop)
	os.MkdirAll(dir, 0o755)
	path := filepath.Join(dir, sanitize(o.Name)+".json")
	rf := &replayFile{Property: prop, Obligation: o.Name, Kind: o.Kind, Function: o.Func,
		Position: fmt.Sprintf("%s:%d", relPath(repo, o.Pos.Filename), o.Pos.Line), Text: o.Text, Goal: clip(o.Goal.String(), 2000),
		Solver: o.Status, Backend: o.Backend, Output: clip(o.Output, 4000), Model: o.Model}
	if q, err := os.ReadFile(o.Query); err == nil {
		rf.Query = clip(string(q), 200000)
	}
	confirmed := false
	switch {
	case o.Status != "failed" && !o.Projected:
		rf.Outcome = "no-model"
		rf.Detail = "the solver returned no model (quantified or undecided obligation)"
	default:
		src, pkgDir, why := p.buildReplayTest(o)
		if src == "" {
			rf.Outcome = "not-replayable"
			rf.Detail = why
		} else {
			rf.TestSource = src
			rf.PackageDir = pkgDir
			out, failed := runOverlayTest(pkgDir, src, "TestGovcReplay")
			rf.TestOutput = clip(out, 6000)
			if failed {
				rf.Outcome = "confirmed"
				confirmed = true
			} else {
				rf.Outcome = "model-not-reproduced"
				rf.Detail = "the concrete inputs from the model do not violate the clause on the real code (the model lives in the slack of a callee contract, a loop invariant or an abstraction)"
			}
		}
	}
	b, _ := json.MarshalIndent(rf, "", " ")
	os.WriteFile(path, b, 0o644)
	return path, confirmed
}

// runOverlayTest injects src as zz_govc_replay_test.go into pkgDir and runs it. failed=true
// when the test fails (the violation is reproduced).
func runOverlayTest(pkgDir, src, testName string) (string, bool) {
	tmp, err := os.MkdirTemp("", "govc-replay-")
	if err != nil {
		return err.Error(), false
	}
	defer os.RemoveAll(tmp)
	tf := filepath.Join(tmp, "replay_test.go")
	os.WriteFile(tf, []byte(src), 0o644)
	ov := map[string]map[string]string{"Replace": {filepath.Join(pkgDir, "zz_govc_replay_test.go"): tf}}
	ob, _ := json.Marshal(ov)
	of := filepath.Join(tmp, "ov.json")
	os.WriteFile(of, ob, 0o644)
	ctx, cancel := context.WithTimeout(context.Background(), 180*time.Second)
	defer cancel()
	cmd := exec.CommandContext(ctx, "bash", "-c", fmt.Sprintf("ulimit -v 4000000; cd %q && go test -overlay %q -vet=off -count=1 -timeout 60s -run '^%s$' .", pkgDir, of, testName))
	cmd.Env = append(childEnv(), "GOCACHE="+filepath.Join(tmp, "gocache"))
	cmd.Env = childEnv()
	var out bytes.Buffer
	cmd.Stdout = &out
	cmd.Stderr = &out
	err = cmd.Run()
	s := out.String()
	if strings.Contains(s, "GOVC-REPLAY-VIOLATION") {
		return s, true
	}
	if strings.Contains(s, "[build failed]") {
		s = "REPLAY-BUILD-FAILED (generator limitation, not evidence either way)\n" + s
	}
	return s, false
}
