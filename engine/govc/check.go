package govc

import (
	"os/exec"
	"context"
	"encoding/json"
	"fmt"
	"os"
	"path/filepath"
	"sort"
	"strconv"
	"strings"
	"time"
)

type oblReport struct {
	Name    string  `json:"name"`
	Kind    string  `json:"kind"`
	Status  string  `json:"status"`
	Backend string  `json:"backend"`
	TimeS   float64 `json:"time_s"`
	Quant   bool    `json:"quantified"`
	Pos     string  `json:"pos"`
	Goal    string  `json:"goal,omitempty"`
	Hyps    int     `json:"hypotheses,omitempty"`
}

func readJSON(path string, into interface{}) error {
	b, err := os.ReadFile(path)
	if err != nil {
		return err
	}
	return json.Unmarshal(b, into)
}

func hasTag(tags []string, p string) bool {
	for _, t := range tags {
		if strings.TrimSpace(t) == p {
			return true
		}
	}
	return false
}

func runCheck(repo, verif, prop, tier string, t0 time.Time) (int, error) {
	if prop == "" {
		return 2, fmt.Errorf("--property required")
	}
	var propmap map[string]*PropEntry
	if err := readJSON(filepath.Join(verif, "propmap.json"), &propmap); err != nil {
		return 2, fmt.Errorf("propmap.json: %v", err)
	}
	pe := propmap[prop]
	if pe != nil && pe.Effects != nil {
		return runEffectCheck(repo, verif, prop, tier, pe, t0)
	}
	if pe == nil || len(pe.Functions) == 0 {
		return 2, fmt.Errorf("property %s has no functions in propmap.json", prop)
	}
	var known KnownFile
	_ = readJSON(filepath.Join(verif, "KNOWN_FINDINGS.json"), &known)
	var floors map[string]int
	_ = readJSON(filepath.Join(verif, "expected_obligations.json"), &floors)
	seed := 0
	if s := os.Getenv("VERIF_SEED"); s != "" {
		seed, _ = strconv.Atoi(s)
	}
	timeout, coverTimeout := 30, 1
	allSolvers := false
	if tier == "thorough" {
		timeout, coverTimeout = 120, 5
		allSolvers = true
	}
	prog, err := loadAll(repo, verif)
	if err != nil {
		return 2, err
	}
	// propmap.json is derived from the `tags` lines by a tool; a list that was not regenerated after a tag was added
	// would silently leave a function out. Every function whose own contract carries this property's tag is checked
	// whether the list names it or not (trusted / inline contracts and interface contracts have no body to verify).
	listed := map[string]bool{}
	for _, n := range pe.Functions {
		if j := strings.Index(n, "@"); j >= 0 {
			n = n[:j]
		}
		listed[n] = true
	}
	var addedByTag []string
	for _, c := range prog.specs.Contracts {
		if c.Pkg == "" || c.Lib || c.Trusted || c.Inline || !hasTag(c.Tags, prop) {
			continue
		}
		pk := prog.pkgs[c.Pkg]
		if pk == nil {
			continue
		}
		key := c.Key
		if j := strings.LastIndex(key, "$"); j >= 0 {
			key = key[:j]
		}
		if f, _ := prog.lookupFunc(pk.Types.Name(), key); f == nil {
			continue
		}
		name := pk.Types.Name() + "." + c.Key
		if !listed[name] {
			listed[name] = true
			addedByTag = append(addedByTag, name)
		}
	}
	sort.Strings(addedByTag)
	if len(addedByTag) > 0 {
		fmt.Fprintf(os.Stderr, "propmap.json is stale: %d functions tagged %s are not listed and were added: %s\n", len(addedByTag), prop, strings.Join(addedByTag, " "))
		pe.Functions = append(pe.Functions, addedByTag...)
	}
	funcs, err := prog.findFuncs(pe.Functions)
	if err != nil {
		// a contracted function disappeared: the property's proof no longer applies
		return 2, err
	}
	dir, err := os.MkdirTemp("", "govc-"+prop+"-")
	if err != nil {
		return 2, err
	}
	defer os.RemoveAll(dir)
	var frameObls []effectObl
	if pe.IOFrame != nil {
		frameObls = prog.checkIOFrame(pe.IOFrame)
		if len(frameObls) == 0 {
			return 2, fmt.Errorf("vacuity: no frame obligations generated for %s", prop)
		}
	}

	var obls, covers []*Obligation
	perFunc := map[string]int{}
	unsupported := []string{}
	var trusted []string
	assumptions := map[string]bool{}
	callees := map[string]bool{}
	coverByFunc := map[string][]*Obligation{}
	for _, f := range funcs {
		vo := runVerify(prog, f)
		if vo.err != nil {
			return 2, vo.err
		}
		fr := vo.fr
		if fr.Trusted {
			trusted = append(trusted, fr.Name)
			continue
		}
		if fr.Unsupported != "" {
			unsupported = append(unsupported, fr.Name+": "+fr.Unsupported)
			continue
		}
		for _, o := range fr.Obls {
			// a clause tagged only with properties this function is not listed for (a callee's
			// requires[Cxx] met in a function outside Cxx's list) would be checked by nobody:
			// it counts for the function's own properties
			orphan := len(o.Tags) > 0
			for _, t := range o.Tags {
				if hasTag(fr.Tags, t) {
					orphan = false
				}
			}
			if hasTag(o.Tags, prop) || len(o.Tags) == 0 || orphan {
				obls = append(obls, o)
				perFunc[fr.Name]++
			}
		}
		for _, a := range fr.Assumptions {
			assumptions[a] = true
		}
		for _, c := range fr.Callees {
			callees[c] = true
		}
		covers = append(covers, fr.Covers...)
		coverByFunc[fr.Name] = fr.Covers
	}
	if len(obls) == 0 && len(unsupported) == 0 {
		return 2, fmt.Errorf("vacuity: no obligations generated for %s", prop)
	}
	if fl, ok := floors[prop]; ok && len(obls) < fl && len(unsupported) == 0 {
		return 2, fmt.Errorf("vacuity: %d obligations generated for %s, committed floor is %d", len(obls), prop, fl)
	}
	tGen := time.Since(t0)
	prog.solveAll(dir, obls, timeout, allSolvers, 12)
	// an obligation left undecided may only have run out of time because the machine was busy: every
	// undecided one is tried again, two at a time, with twice the budget and all three solvers, before it is reported
	var again []*Obligation
	knownNames := map[string]bool{}
	for _, k := range known.Findings {
		if k.Property == prop {
			knownNames[k.Obligation] = true
		}
	}
	for _, o := range obls {
		if knownNames[stableName(o.Name)] {
			continue // a listed finding is expected to stay undecided / refuted: no second attempt
		}
		if o.Status != "discharged" && o.Status != "failed" && o.Status != "disagreement" && !o.Projected {
			again = append(again, o)
		}
	}
	if len(again) > 0 && len(again) <= 12 {
		for _, o := range again {
			o.Status, o.Output = "", ""
		}
		prog.solveAll(filepath.Join(dir), again, timeout*2, true, 3)
		fmt.Fprintf(os.Stderr, "retried %d undecided obligations with %d s each\n", len(again), timeout*2)
	}
	tSolve := time.Since(t0) - tGen
	// lemmas over the spec functions (SMT-LIB files asserting the negated claim): must be unsat
	lemmaReports := []map[string]interface{}{}
	for _, lf := range pe.Lemmas {
		path := filepath.Join(verif, lf)
		if _, err := os.Stat(path); err != nil {
			return 2, fmt.Errorf("lemma file %s: %v", lf, err)
		}
		use := solvers[:1]
		if allSolvers {
			use = solvers
		}
		for _, sc := range use {
			r := runSolver(context.Background(), sc, path, timeout*3)
			lemmaReports = append(lemmaReports, map[string]interface{}{"lemma": lf, "backend": sc.name, "status": r.status, "time_s": round3(r.secs)})
			if r.status != "unsat" {
				return 2, fmt.Errorf("lemma %s not proved by %s: %s", lf, sc.name, clip(r.out, 300))
			}
		}
	}
	// thorough tier: the assumed / trusted contracts are run against the real functions
	conformance := "not run (quick tier)"
	if tier == "thorough" {
		script := filepath.Join(verif, "tools", "conformance.sh")
		if _, err := os.Stat(script); err == nil {
			out, err := exec.Command("bash", script).CombinedOutput()
			if err != nil {
				return 2, fmt.Errorf("an assumed contract failed its conformance test against the real function:\n%s", clip(string(out), 3000))
			}
			conformance = "passed: " + strings.Join(strings.Fields(string(out)), " ")
		}
	}
	// vacuity: reachability covers (must NOT be unsat)
	prog.solveAll(filepath.Join(dir), covers, coverTimeout, false, 16)
	fmt.Fprintf(os.Stderr, "phases: load+generate %.1fs, solve %d obligations %.1fs, %d covers %.1fs\n", tGen.Seconds(), len(obls), tSolve.Seconds(), len(covers), (time.Since(t0) - tGen - tSolve).Seconds())
	var vacuous []string
	for fn, cs := range coverByFunc {
		groups := map[string][2]int{} // kind -> [total, unsat]
		for _, c := range cs {
			g := groups[c.Kind]
			g[0]++
			if c.Status == "discharged" {
				g[1]++
			}
			groups[c.Kind] = g
		}
		for k, g := range groups {
			if g[0] > 0 && g[0] == g[1] {
				vacuous = append(vacuous, fn+" "+k)
			}
		}
	}
	sort.Strings(vacuous)
	// a loop body / function end that became unreachable because an obligation of the same function failed (an
	// invariant that does not hold on entry contradicts the state it is assumed in) is a consequence of that failure:
	// the failed obligation is reported by name below. Unreachable code with every obligation discharged is a broken check.
	failedIn := map[string]bool{}
	for _, o := range obls {
		if o.Status != "discharged" {
			failedIn[o.Func] = true
		}
	}
	var unexplained []string
	for _, v := range vacuous {
		fn := v
		if i := strings.LastIndex(v, " "); i > 0 {
			fn = v[:i]
		}
		if !failedIn[fn] {
			unexplained = append(unexplained, v)
		}
	}
	vacuous = unexplained
	if len(vacuous) > 0 {
		return 2, fmt.Errorf("vacuity: hypotheses are contradictory (no reachable path) for: %s", strings.Join(vacuous, "; "))
	}

	// verdicts
	knownSet := map[string]KnownFinding{}
	for _, k := range known.Findings {
		if k.Property == prop {
			knownSet[k.Obligation] = k
		}
	}
	var reports []oblReport
	byBackend := map[string]int{}
	var solverTime float64
	discharged := 0
	var failing []*Obligation
	knownHit := []string{}
	for _, o := range obls {
		reports = append(reports, oblReport{Name: o.Name, Kind: o.Kind, Status: o.Status, Backend: o.Backend, TimeS: round3(o.TimeS),
			Quant: o.Quant, Pos: fmt.Sprintf("%s:%d", relPath(repo, o.Pos.Filename), o.Pos.Line)})
		solverTime += o.TimeS
		switch o.Status {
		case "discharged":
			discharged++
			byBackend[o.Backend]++
		case "disagreement":
			return 2, fmt.Errorf("SOLVER-DISAGREEMENT on %s: %s", o.Name, o.Output)
		default:
			failing = append(failing, o)
		}
	}
	violations := 0
	exit := 0
	replayDir := filepath.Join(verif, "replays", prop)
	os.RemoveAll(replayDir)
	var lines []string
	for _, o := range failing {
		if k, ok := knownSet[stableName(o.Name)]; ok {
			knownHit = append(knownHit, o.Name)
			lines = append(lines, fmt.Sprintf("KNOWN-FINDING: property=%s %s %s", prop, stableName(o.Name), k.What))
			continue
		}
		violations++
		exit = 1
		rp, confirmed := prog.makeReplay(verif, repo, prop, o, tier)
		suffix := ""
		if !confirmed {
			suffix = " no-failing-input-found"
		}
		lines = append(lines, fmt.Sprintf("VIOLATION property=%s replay=%s%s", prop, rp, suffix))
	}
	for _, u := range unsupported {
		violations++
		exit = 1
		os.MkdirAll(replayDir, 0o755)
		rp := filepath.Join(replayDir, "unsupported-"+sanitize(u)+".json")
		b, _ := json.MarshalIndent(map[string]string{"property": prop, "obligation": "function outside the verified subset", "detail": u,
			"outcome": "no-model"}, "", " ")
		os.WriteFile(rp, b, 0o644)
		lines = append(lines, fmt.Sprintf("VIOLATION property=%s replay=%s no-failing-input-found", prop, rp))
	}
	frameDischarged := 0
	for _, o := range frameObls {
		fn := o.Name[:strings.Index(o.Name, "#")]
		perFunc[fn]++
		if o.OK {
			frameDischarged++
			byBackend["govc-effect-checker (no SMT)"]++
			continue
		}
		if k, ok := knownSet[o.Name]; ok {
			knownHit = append(knownHit, o.Name)
			lines = append(lines, fmt.Sprintf("KNOWN-FINDING: property=%s %s %s", prop, o.Name, k.What))
			continue
		}
		violations++
		exit = 1
		os.MkdirAll(replayDir, 0o755)
		rp := filepath.Join(replayDir, sanitize(o.Name)+".json")
		b, _ := json.MarshalIndent(map[string]string{"property": prop, "obligation": o.Name, "position": o.Pos, "detail": o.Detail,
			"outcome": "no-model", "verifier_output": "frame obligation (syntactic, go/types): the forbidden reference occurs at " + o.Pos + ": " + o.Detail}, "", " ")
		os.WriteFile(rp, b, 0o644)
		lines = append(lines, fmt.Sprintf("VIOLATION property=%s replay=%s no-failing-input-found", prop, rp))
	}
	discharged += frameDischarged
	// dedupe known-finding lines by stable obligation name
	seenLine := map[string]bool{}
	for _, l := range lines {
		if !seenLine[l] {
			seenLine[l] = true
			fmt.Println(l)
		}
	}

	// evidence
	level := pe.Level
	if level == "" {
		level = "proof"
	}
	if len(knownHit) > 0 && level == "proof" {
		level = "other"
	}
	var fnames []string
	for n := range perFunc {
		fnames = append(fnames, n)
	}
	sort.Strings(fnames)
	var funcsCov []map[string]interface{}
	for _, n := range fnames {
		funcsCov = append(funcsCov, map[string]interface{}{"function": n, "obligations": perFunc[n]})
	}
	sort.Slice(reports, func(i, j int) bool { return reports[i].TimeS > reports[j].TimeS })
	slowest := reports
	if len(slowest) > 5 {
		slowest = slowest[:5]
	}
	var samples []oblReport
	for i, o := range obls {
		if i%(1+len(obls)/6) == 0 {
			samples = append(samples, oblReport{Name: o.Name, Kind: o.Kind, Status: o.Status, Backend: o.Backend, TimeS: round3(o.TimeS),
				Quant: o.Quant, Pos: fmt.Sprintf("%s:%d", relPath(repo, o.Pos.Filename), o.Pos.Line), Goal: clip(o.Goal.String(), 400), Hyps: len(o.Hyps)})
		}
	}
	asl := []string{}
	for a := range assumptions {
		asl = append(asl, a)
	}
	sort.Strings(asl)
	var cl []string
	for c := range callees {
		cl = append(cl, c)
	}
	sort.Strings(cl)
	tb := append([]string{}, pe.Trusted...)
	tb = append(tb, "govc: symbolic semantics of the Go subset, SMT-LIB printer, z3 4.8.12 / z3 5.1.0 / cvc5 1.0")
	for _, c := range cl {
		if strings.HasSuffix(c, "(assumed)") || strings.HasSuffix(c, "(no effect)") {
			tb = append(tb, "library contract: "+c)
		}
	}
	for _, t := range trusted {
		tb = append(tb, "trusted (contract assumed, body not verified): "+t)
	}
	nQuant := 0
	for _, o := range obls {
		if o.Quant {
			nQuant++
		}
	}
	coverage := map[string]interface{}{
		"obligations":              len(obls) + len(frameObls),
		"discharged":               discharged,
		"frame_obligations":        len(frameObls),
		"checker_cmd":              fmt.Sprintf("/verif/bin/govc check --property %s --tier %s", prop, tier),
		"trusted_base":             tb,
		"functions_under_contract": funcsCov,
		"by_backend":               byBackend,
		"solver_time_s":            round3(solverTime),
		"slowest":                  slowest,
		"quantified_obligations":   nQuant,
		"known_findings":           knownHit,
		"unsupported":              unsupported,
		"bounded":                  nonNil(pe.Bounded),
		"not_covered":              nonNil(pe.NotCov),
		"callees":                  cl,
		"samples":                  samples,
		"vacuity": map[string]interface{}{"reachability_covers": len(covers), "rule": "per function and per loop at least one path condition must not be refutable; obligation count must reach the committed floor",
			"floor": floors[prop]},
		"explanation": pe.Note,
		"lemmas":      lemmaReports,
		"conformance_of_assumed_contracts": conformance,
		"evaluations": len(obls), "distinct_nontrivial": len(obls),
		"rule": "one SMT query per proof obligation generated from /repo's current source; trivially true goals are not emitted, so every counted obligation is non-trivial; names are distinct",
	}
	ev := map[string]interface{}{
		"property_id": prop, "tier": tier, "seed": seed, "level": level, "coverage": coverage,
		"assumptions": asl, "wall_s": round3(time.Since(t0).Seconds()), "violations": violations,
	}
	os.MkdirAll(filepath.Join(verif, "evidence"), 0o755)
	b, _ := json.MarshalIndent(ev, "", " ")
	if err := os.WriteFile(filepath.Join(verif, "evidence", prop+".json"), b, 0o644); err != nil {
		return 2, err
	}
	fmt.Printf("property=%s tier=%s obligations=%d discharged=%d known=%d violations=%d functions=%d wall=%.1fs\n",
		prop, tier, len(obls)+len(frameObls), discharged, len(knownHit), violations, len(perFunc), time.Since(t0).Seconds())
	return exit, nil
}

// stableName strips the trailing ordinal (#n) so that known findings are keyed by obligation
// kind and clause, not by path enumeration order.
func stableName(n string) string {
	if i := strings.LastIndex(n, "#"); i >= 0 {
		if _, err := strconv.Atoi(n[i+1:]); err == nil {
			return n[:i]
		}
	}
	return n
}

func round3(f float64) float64 { return float64(int(f*1000+0.5)) / 1000 }

func relPath(repo, f string) string {
	if r, err := filepath.Rel(repo, f); err == nil {
		return r
	}
	return f
}

func clip(s string, n int) string {
	if len(s) > n {
		return s[:n] + "…"
	}
	return s
}

func sanitize(s string) string {
	var b strings.Builder
	for _, r := range s {
		if r >= 'a' && r <= 'z' || r >= 'A' && r <= 'Z' || r >= '0' && r <= '9' || r == '.' || r == '-' || r == '_' {
			b.WriteRune(r)
		} else {
			b.WriteRune('_')
		}
		if b.Len() > 120 {
			break
		}
	}
	return b.String()
}

func cmdReplay(args []string) int {
	if len(args) == 0 {
		fmt.Fprintln(os.Stderr, "usage: govc replay <file.json>")
		return 2
	}
	var r map[string]interface{}
	if err := readJSON(args[0], &r); err != nil {
		fmt.Fprintln(os.Stderr, err)
		return 2
	}
	src, _ := r["test_source"].(string)
	pkgDir, _ := r["package_dir"].(string)
	if src == "" || pkgDir == "" {
		fmt.Println("replay file carries no executable test (outcome:", r["outcome"], ")")
		return 1
	}
	out, failed := runOverlayTest(pkgDir, src, "TestGovcReplay")
	fmt.Println(out)
	if failed {
		fmt.Println("replay: violation reproduced on the real code")
		return 1
	}
	fmt.Println("replay: not reproduced")
	return 0
}

func nonNil(s []string) []string {
	if s == nil {
		return []string{}
	}
	return s
}

// runEffectCheck decides the effect/frame properties (C12, C18): see effects.go.
func runEffectCheck(repo, verif, prop, tier string, pe *PropEntry, t0 time.Time) (int, error) {
	var known KnownFile
	_ = readJSON(filepath.Join(verif, "KNOWN_FINDINGS.json"), &known)
	var floors map[string]int
	_ = readJSON(filepath.Join(verif, "expected_obligations.json"), &floors)
	prog, err := loadAll(repo, verif)
	if err != nil {
		return 2, err
	}
	var obls []effectObl
	switch pe.EffectKind {
	case "shared-state":
		obls = prog.checkEffectsC12(pe.Effects)
	case "determinism":
		obls = prog.checkEffectsC18(pe.Effects)
	default:
		return 2, fmt.Errorf("unknown effect_kind %q", pe.EffectKind)
	}
	if len(obls) == 0 {
		return 2, fmt.Errorf("vacuity: no effect obligations generated for %s", prop)
	}
	if fl, ok := floors[prop]; ok && len(obls) < fl {
		return 2, fmt.Errorf("vacuity: %d obligations generated for %s, committed floor is %d", len(obls), prop, fl)
	}
	knownSet := map[string]KnownFinding{}
	for _, k := range known.Findings {
		if k.Property == prop {
			knownSet[k.Obligation] = k
		}
	}
	replayDir := filepath.Join(verif, "replays", prop)
	os.RemoveAll(replayDir)
	exit, violations, discharged := 0, 0, 0
	knownHit := []string{}
	perFunc := map[string]int{}
	for _, o := range obls {
		fn := o.Name
		if i := strings.Index(fn, "#"); i >= 0 {
			fn = fn[:i]
		}
		perFunc[fn]++
		if o.OK {
			discharged++
			continue
		}
		if k, ok := knownSet[o.Name]; ok {
			knownHit = append(knownHit, o.Name)
			fmt.Printf("KNOWN-FINDING: property=%s %s %s\n", prop, o.Name, k.What)
			continue
		}
		violations++
		exit = 1
		os.MkdirAll(replayDir, 0o755)
		rp := filepath.Join(replayDir, sanitize(o.Name)+".json")
		b, _ := json.MarshalIndent(map[string]string{"property": prop, "obligation": o.Name, "position": o.Pos, "detail": o.Detail,
			"outcome": "no-model", "verifier_output": "effect checker: the forbidden pattern occurs at " + o.Pos + ": " + o.Detail}, "", " ")
		os.WriteFile(rp, b, 0o644)
		fmt.Printf("VIOLATION property=%s replay=%s no-failing-input-found\n", prop, rp)
	}
	var fnames []string
	for n := range perFunc {
		fnames = append(fnames, n)
	}
	sort.Strings(fnames)
	var funcsCov []map[string]interface{}
	for _, n := range fnames {
		funcsCov = append(funcsCov, map[string]interface{}{"function": n, "obligations": perFunc[n]})
	}
	level := pe.Level
	if level == "" {
		level = "other"
	}
	tb := append([]string{}, pe.Trusted...)
	tb = append(tb, "govc effect checker (syntactic, over go/types information of /repo's current source)")
	coverage := map[string]interface{}{
		"obligations": len(obls), "discharged": discharged,
		"checker_cmd":              fmt.Sprintf("/verif/bin/govc check --property %s --tier %s", prop, tier),
		"trusted_base":             tb,
		"functions_under_contract": funcsCov,
		"by_backend":               map[string]int{"govc-effect-checker (no SMT)": discharged},
		"solver_time_s":            0,
		"known_findings":           knownHit,
		"not_covered":              nonNil(pe.NotCov),
		"bounded":                  nonNil(pe.Bounded),
		"explanation":              pe.Note,
		"config":                   pe.Effects,
		"evaluations":              len(obls), "distinct_nontrivial": len(obls),
		"rule": "one named syntactic obligation per function and rule, generated from /repo's current source",
		"vacuity": map[string]interface{}{"floor": floors[prop], "rule": "obligation count must reach the committed floor"},
	}
	ev := map[string]interface{}{
		"property_id": prop, "tier": tier, "seed": 0, "level": level, "coverage": coverage,
		"assumptions": nonNil(pe.Trusted), "wall_s": round3(time.Since(t0).Seconds()), "violations": violations,
	}
	os.MkdirAll(filepath.Join(verif, "evidence"), 0o755)
	b, _ := json.MarshalIndent(ev, "", " ")
	if err := os.WriteFile(filepath.Join(verif, "evidence", prop+".json"), b, 0o644); err != nil {
		return 2, err
	}
	fmt.Printf("property=%s tier=%s obligations=%d discharged=%d known=%d violations=%d functions=%d wall=%.1fs\n",
		prop, tier, len(obls), discharged, len(knownHit), violations, len(perFunc), time.Since(t0).Seconds())
	return exit, nil
}
