package fs

// Demonstration of the known finding C10 "partial sectors are left encrypted" against the real code:
// a read that does not cover a whole 2048-byte sector of an encrypted region returns the stored ciphertext
// for it. Run with:  cd /repo && go test -overlay <ov.json> -vet=off -run TestFindingC10 ./pkg/fs
// (ov.json maps /repo/pkg/fs/zz_finding_test.go to this file).

import (
	"bytes"
	"crypto/aes"
	"crypto/cipher"
	"encoding/binary"
	"io"
	"testing"

	"github.com/spf13/afero"
)

func TestFindingC10PartialSectorsLeftEncrypted(t *testing.T) {
	const sectors = 6
	data1 := []byte("0123456789abcdef")
	var isoKey [16]byte
	if err := deriveISOKey(isoKey[:], data1); err != nil {
		t.Fatal(err)
	}
	cip, _ := aes.NewCipher(isoKey[:])
	plain := make([]byte, sectors*2048)
	for i := range plain {
		plain[i] = byte(i*7 + i/2048)
	}
	// region table: plain [0,2) and [4,6): sectors 2,3 are encrypted
	binary.BigEndian.PutUint32(plain[0:], 2)
	binary.BigEndian.PutUint32(plain[8:], 0)
	binary.BigEndian.PutUint32(plain[12:], 2)
	binary.BigEndian.PutUint32(plain[16:], 4)
	binary.BigEndian.PutUint32(plain[20:], 6)
	stored := bytes.Clone(plain)
	for s := 2; s < 4; s++ {
		var iv [16]byte
		binary.BigEndian.PutUint32(iv[12:], uint32(s))
		cipher.NewCBCEncrypter(cip, iv[:]).CryptBlocks(stored[s*2048:(s+1)*2048], plain[s*2048:(s+1)*2048])
	}
	mfs := afero.NewMemMapFs()
	afero.WriteFile(mfs, "/img.iso", stored, 0o644)
	open := func() *EncryptedISO {
		f, err := mfs.Open("/img.iso")
		if err != nil {
			t.Fatal(err)
		}
		e, err := NewEncryptedISO(f, data1, false)
		if err != nil {
			t.Fatal(err)
		}
		return e
	}
	// aligned whole-sector reads are fine
	e := open()
	buf := make([]byte, 2*2048)
	if _, err := e.ReadAt(buf, 2*2048); err != nil || !bytes.Equal(buf, plain[2*2048:4*2048]) {
		t.Fatalf("aligned ReadAt: reference plaintext expected (err=%v)", err)
	}
	// ReadAt of 100 bytes inside encrypted sector 2
	small := make([]byte, 100)
	if _, err := e.ReadAt(small, 2*2048+16); err != nil {
		t.Fatal(err)
	}
	if !bytes.Equal(small, plain[2*2048+16:2*2048+116]) {
		t.Errorf("ReadAt(100 bytes at sector 2 + 16): not the reference plaintext (ciphertext returned: %v)", bytes.Equal(small, stored[2*2048+16:2*2048+116]))
	}
	// sequential reads in 512-byte chunks (what io.ReadAll / bytes.Buffer.ReadFrom do)
	e = open()
	got, err := io.ReadAll(e)
	if err != nil {
		t.Fatal(err)
	}
	if !bytes.Equal(got, plain) {
		t.Errorf("io.ReadAll over the decrypting view: not the reference plaintext (encrypted sectors equal the stored ciphertext: %v)", bytes.Equal(got[2*2048:4*2048], stored[2*2048:4*2048]))
	}
}
