#!/usr/bin/env python3
"""Generates the mechanical tables of DESIGN.md Part I (as built) into DESIGN.tables.md:
properties (from evidence + propnotes), seeded changes (from seeded/*/meta.json), fixed defects
(KNOWN_FINDINGS.json), trusted contracts and ASSUMED clauses (from the contract files)."""
import json, os, glob, re, subprocess
V = os.path.dirname(os.path.dirname(os.path.abspath(__file__)))
out = []
notes = json.load(open(f'{V}/propnotes.json'))
man = json.load(open(f'{V}/MANIFEST.json'))
out.append('### T1. Properties: what is claimed and how much was discharged on the unchanged tree\n')
out.append('| id | level | functions under contract | obligations (discharged / listed as known finding) | by back end | solver time | wall (quick) |')
out.append('|---|---|---|---|---|---|---|')
for c in man['checks']:
    pid = c['property_id']
    try:
        ev = json.load(open(f'{V}/evidence/{pid}.json'))
    except Exception:
        continue
    cov = ev['coverage']
    be = ', '.join(f'{k} {v}' for k, v in sorted(cov.get('by_backend', {}).items()))
    out.append(f"| {pid} | {ev['level']} | {len(cov.get('functions_under_contract', []))} | {cov['obligations']} ({cov['discharged']} / {len(cov.get('known_findings', []))}) | {be} | {cov.get('solver_time_s', 0)} s | {ev['wall_s']} s |")
out.append('')
out.append('Not applicable: ' + '; '.join(f"{n['property_id']} ({n['reason'][:160]})" for n in man['not_applicable']) + '\n')
out.append('### T2. Seeded changes (made by fresh sub-agents that saw only the property text) and the checks that report them\n')
out.append('| seeded change | property | what it needs | detected by | note |')
out.append('|---|---|---|---|---|')
for d in sorted(glob.glob(f'{V}/seeded/*/meta.json')):
    m = json.load(open(d))
    out.append(f"| {m['id']} | {m['property']} | {m['needs'][:140]} | {' '.join(m['detected_by_checks']) or '**none**'} | {m.get('note', '')[:220]} |")
out.append('')
out.append('### T3. Genuine defects found by failed obligations and repaired (`fix:` commits in /repo)\n')
k = json.load(open(f'{V}/KNOWN_FINDINGS.json'))
for f in k['fixed']:
    out.append('- ' + f)
out.append('')
out.append('Open findings (reported as KNOWN-FINDING, exit 0): ' + (json.dumps(k['findings']) if k['findings'] else 'none') + '\n')
out.append('### T4. Trusted contracts (body not verified) and ASSUMED clauses, extracted from the contract files\n')
for f in sorted(glob.glob('/repo/**/contracts_verif.go', recursive=True)):
    cur = None
    pkg = None
    for line in open(f):
        m = re.match(r'^package (\w+)', line)
        if m: pkg = m.group(1)
        m = re.match(r'^//@ func (\S+)', line)
        if m: cur = pkg + '.' + m.group(1)
        if re.match(r'^//@\s+trusted\s*$', line) and cur:
            out.append(f'- trusted: `{cur}`')
        m = re.match(r'^//@\s+ensures\[([^\]]*ASSUMED[^\]]*)\].*@(\S+)', line)
        if m and cur:
            out.append(f'- ASSUMED clause: `{cur}` @{m.group(2)}')
out.append('')
out.append('### T5. Assumed library contracts (files under /verif/contracts/lib)\n')
for f in sorted(glob.glob(f'{V}/contracts/lib/*.spec')):
    fns = re.findall(r'^func (\S+)', open(f).read(), re.M)
    axs = re.findall(r'^axiom (\S+):', open(f).read(), re.M)
    out.append(f"- `{os.path.basename(f)}`: {len(fns)} function contracts, {len(axs)} axioms ({', '.join(axs[:12])}{' ...' if len(axs) > 12 else ''})")
open(f'{V}/DESIGN.tables.md', 'w').write('\n'.join(out) + '\n')
print('\n'.join(out)[:3000])
