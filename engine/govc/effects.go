package govc

import (
	"fmt"
	"go/ast"
	"go/token"
	"go/types"
	"sort"
	"strings"
)

// Effect / frame checker (G6 of DESIGN.md): syntactic obligations over the typed AST for the two
// properties whose mechanism is "no shared mutable state" (C12) and "no hidden nondeterminism on the
// layout path" (C18). Each obligation is a named, purely syntactic check; it is discharged when the
// pattern it forbids does not occur (or occurs only in the allow-listed form).

type effectCfg struct {
	Packages     []string            `json:"packages"`     // package names to scan
	SharedTypes  []string            `json:"shared_types"` // "pkg.Type": objects shared by all connections, fields immutable after construction
	SafeGlobals  []string            `json:"safe_globals"` // "pkg.name": package-level variables that may be used (immutable values / goroutine-safe objects)
	SafeLibTypes []string            `json:"safe_lib_types"`
	GoAllowed    []string            `json:"go_allowed"`   // functions that may start goroutines
	Functions    []string            `json:"functions"`    // C18: "pkg.Key" of the layout path
	NondetSinks  map[string][]string `json:"nondet_sinks"` // C18: "func:source" -> allowed statement forms (substring of the normalised statement)
	TaintLocals  map[string][]string `json:"taint_locals"` // C18: "func:local" -> struct fields the local may initialise
	TaintFields  map[string][]string `json:"taint_fields"` // C18: "pkg.Type.field" -> functions that may use the field
}

type effectObl struct {
	Name   string
	OK     bool
	Detail string
	Pos    string
}

func (p *Program) modulePkgByName(name string) []*types.Package {
	var out []*types.Package
	for path, pk := range p.pkgs {
		if strings.HasPrefix(path, modulePrefix) && pk.Types.Name() == name {
			out = append(out, pk.Types)
		}
	}
	return out
}

func (p *Program) checkEffectsC12(cfg *effectCfg) []effectObl {
	var obls []effectObl
	safeGlobal := map[string]bool{}
	for _, g := range cfg.SafeGlobals {
		safeGlobal[g] = true
	}
	shared := map[string]bool{}
	for _, t := range cfg.SharedTypes {
		shared[t] = true
	}
	scan := map[string]bool{}
	for _, n := range cfg.Packages {
		scan[n] = true
	}
	var paths []string
	for path := range p.pkgs {
		paths = append(paths, path)
	}
	sort.Strings(paths)
	for _, path := range paths {
		pk := p.pkgs[path]
		if !strings.HasPrefix(path, modulePrefix) || !scan[pk.Types.Name()] {
			continue
		}
		info := pk.TypesInfo
		for _, f := range pk.Syntax {
			if strings.HasSuffix(p.fset.Position(f.Pos()).Filename, "_test.go") {
				continue
			}
			for _, d := range f.Decls {
				fd, ok := d.(*ast.FuncDecl)
				if !ok || fd.Body == nil {
					continue
				}
				fobj, _ := info.Defs[fd.Name].(*types.Func)
				if fobj == nil {
					continue
				}
				fname := pk.Types.Name() + "." + funcKey(fobj)
				isInit := fd.Name.Name == "init"
				// 1. writes to package-level variables; 3. writes to fields of shared objects
				writes, sharedWrites := 0, 0
				var detail, sdetail []string
				checkLHS := func(l ast.Expr) {
					root := rootIdent(l)
					if root != nil {
						if v, ok := info.Uses[root].(*types.Var); ok && v.Pkg() != nil && v.Parent() == v.Pkg().Scope() {
							writes++
							detail = append(detail, p.fset.Position(l.Pos()).String()+": "+v.Name())
						}
					}
					if sel, ok := ast.Unparen(l).(*ast.SelectorExpr); ok {
						if s := info.Selections[sel]; s != nil && s.Kind() == types.FieldVal {
							rt := s.Recv()
							if pt, ok := rt.Underlying().(*types.Pointer); ok {
								rt = pt.Elem()
							}
							if named, ok := types.Unalias(rt).(*types.Named); ok && named.Obj().Pkg() != nil {
								k := named.Obj().Pkg().Name() + "." + named.Obj().Name()
								if shared[k] {
									sharedWrites++
									sdetail = append(sdetail, p.fset.Position(l.Pos()).String()+": "+k+"."+sel.Sel.Name)
								}
							}
						}
					}
				}
				globalsUsed := map[string]token.Pos{}
				globalTypes := map[string]types.Type{}
				goStmts, selects := 0, 0
				ast.Inspect(fd.Body, func(n ast.Node) bool {
					switch a := n.(type) {
					case *ast.AssignStmt:
						if a.Tok != token.DEFINE {
							for _, l := range a.Lhs {
								checkLHS(l)
							}
						}
					case *ast.IncDecStmt:
						checkLHS(a.X)
					case *ast.UnaryExpr:
						if a.Op == token.AND {
							if inner, ok := ast.Unparen(a.X).(*ast.SelectorExpr); ok {
								if k, fld := sharedValueField(info, inner, shared); k != "" {
									sharedWrites++
									sdetail = append(sdetail, p.fset.Position(a.Pos()).String()+": address of "+k+"."+fld+" taken")
								}
							}
							if id := rootIdent(a.X); id != nil {
								if v, ok := info.Uses[id].(*types.Var); ok && v.Pkg() != nil && v.Parent() == v.Pkg().Scope() && !safeGlobal[v.Pkg().Name()+"."+v.Name()] {
									writes++
									detail = append(detail, p.fset.Position(a.Pos()).String()+": address of "+v.Name()+" taken")
								}
							}
						}
					case *ast.GoStmt:
						goStmts++
					case *ast.SelectorExpr:
						// x.f.M() with a pointer-receiver method M on a value field f of a shared object, or &x.f:
						// the field is mutable state shared by all connections
						if inner, ok := ast.Unparen(a.X).(*ast.SelectorExpr); ok {
							if ms := info.Selections[a]; ms != nil && ms.Kind() == types.MethodVal {
								if _, ptrRecv := ms.Obj().(*types.Func).Type().(*types.Signature).Recv().Type().(*types.Pointer); ptrRecv {
									if k, fld := sharedValueField(info, inner, shared); k != "" {
										sharedWrites++
										sdetail = append(sdetail, p.fset.Position(a.Pos()).String()+": "+k+"."+fld+" is changed through its method "+a.Sel.Name)
									}
								}
							}
						}
					case *ast.SelectStmt:
						selects++
					case *ast.CallExpr:
						// copy(global, ..) / append(global, ..) / clear(global) write through the global
						if id, ok := a.Fun.(*ast.Ident); ok && len(a.Args) > 0 {
							if _, isB := info.Uses[id].(*types.Builtin); isB && (id.Name == "copy" || id.Name == "clear") {
								if r := rootIdent(a.Args[0]); r != nil {
									if v, ok := info.Uses[r].(*types.Var); ok && v.Pkg() != nil && v.Parent() == v.Pkg().Scope() {
										writes++
										detail = append(detail, p.fset.Position(a.Pos()).String()+": "+id.Name+" into "+v.Name())
									}
								}
							}
						}
					case *ast.Ident:
						if v, ok := info.Uses[a].(*types.Var); ok && v.Pkg() != nil && v.Parent() == v.Pkg().Scope() && !v.IsField() {
							globalsUsed[v.Pkg().Name()+"."+v.Name()] = a.Pos()
							globalTypes[v.Pkg().Name()+"."+v.Name()] = v.Type()
						}
					}
					return true
				})
				if isInit {
					continue
				}
				obls = append(obls, effectObl{Name: fname + "#effect:no-write-to-package-level-state", OK: writes == 0,
					Detail: strings.Join(detail, "; "), Pos: p.fset.Position(fd.Pos()).String()})
				obls = append(obls, effectObl{Name: fname + "#effect:no-write-to-shared-object-fields", OK: sharedWrites == 0 || isConstructor(fd),
					Detail: strings.Join(sdetail, "; "), Pos: p.fset.Position(fd.Pos()).String()})
				obls = append(obls, p.pooledBufferObligations(fname, fd, info)...)
				goOK := goStmts == 0
				for _, g := range cfg.GoAllowed {
					if g == fname {
						goOK = true
					}
				}
				_ = selects
				obls = append(obls, effectObl{Name: fname + "#effect:no-goroutine-started", OK: goOK,
					Detail: "a go statement outside the accept loop shares the connection's state between goroutines", Pos: p.fset.Position(fd.Pos()).String()})
				var gnames []string
				for g := range globalsUsed {
					gnames = append(gnames, g)
				}
				sort.Strings(gnames)
				for _, g := range gnames {
					if safeGlobal[g] || immutableValueType(globalTypes[g]) {
						continue
					}
					// module-level constants-like values: arrays / strings / errors that are never written are
					// still listed explicitly in safe_globals; anything else is a shared mutable object
					obls = append(obls, effectObl{Name: fname + "#effect:shared-object:" + g, OK: false,
						Detail: "package-level variable " + g + " is used on the connection path and is not in the list of immutable values / goroutine-safe objects",
						Pos:    p.fset.Position(globalsUsed[g]).String()})
				}
			}
		}
	}
	return obls
}

// immutableValueType: values that carry no mutable state of their own (given that the module never
// writes them, which the no-write obligations establish): sentinel errors, basic values, strings,
// arrays and slices of basic values, stateless (field-less) structs.
func immutableValueType(t types.Type) bool {
	if t == nil {
		return false
	}
	if types.Identical(t, types.Universe.Lookup("error").Type()) {
		return true
	}
	switch u := t.Underlying().(type) {
	case *types.Basic:
		return true
	case *types.Array:
		return immutableValueType(u.Elem())
	case *types.Slice:
		_, basic := u.Elem().Underlying().(*types.Basic)
		return basic
	case *types.Struct:
		for i := 0; i < u.NumFields(); i++ {
			if !immutableValueType(u.Field(i).Type()) {
				return false
			}
		}
		return true
	}
	return false
}

// pooledBufferObligations: a value taken from a sync.Pool belongs to the taking function until its
// Put: it must be bound to a local, Put back in the same function, and never escape (returned, stored
// into a field / global / element, sent, or captured by a go statement) - otherwise two connections
// can hold the same transfer buffer.
func (p *Program) pooledBufferObligations(fname string, fd *ast.FuncDecl, info *types.Info) []effectObl {
	isPoolMethod := func(call *ast.CallExpr, name string) bool {
		sel, ok := call.Fun.(*ast.SelectorExpr)
		if !ok || sel.Sel.Name != name {
			return false
		}
		f, ok := info.Uses[sel.Sel].(*types.Func)
		return ok && f.Pkg() != nil && f.Pkg().Path() == "sync" && strings.Contains(f.FullName(), "Pool")
	}
	var out []effectObl
	pooled := map[types.Object]bool{}
	nget := 0
	var gets []*ast.CallExpr
	ast.Inspect(fd.Body, func(n ast.Node) bool {
		if c, ok := n.(*ast.CallExpr); ok && isPoolMethod(c, "Get") {
			gets = append(gets, c)
		}
		return true
	})
	if len(gets) == 0 {
		// a Put without a Get in the same function hands a foreign buffer to the pool
		nput := 0
		ast.Inspect(fd.Body, func(n ast.Node) bool {
			if c, ok := n.(*ast.CallExpr); ok && isPoolMethod(c, "Put") {
				nput++
			}
			return true
		})
		if nput > 0 {
			out = append(out, effectObl{Name: fname + "#effect:pooled-buffer-put-only-what-was-taken-here", OK: false,
				Detail: "sync.Pool.Put without a Get in the same function", Pos: p.fset.Position(fd.Pos()).String()})
		}
		return out
	}
	// bind: v := pool.Get() / v := pool.Get().(T)
	ast.Inspect(fd.Body, func(n ast.Node) bool {
		as, ok := n.(*ast.AssignStmt)
		if !ok || len(as.Lhs) != 1 || len(as.Rhs) != 1 {
			return true
		}
		rhs := ast.Unparen(as.Rhs[0])
		if ta, ok := rhs.(*ast.TypeAssertExpr); ok {
			rhs = ast.Unparen(ta.X)
		}
		if c, ok := rhs.(*ast.CallExpr); ok && isPoolMethod(c, "Get") {
			if id, ok := as.Lhs[0].(*ast.Ident); ok {
				if o := info.ObjectOf(id); o != nil {
					if v, isVar := o.(*types.Var); isVar && v.Parent() != v.Pkg().Scope() {
						pooled[o] = true
						nget++
					}
				}
			}
		}
		return true
	})
	out = append(out, effectObl{Name: fname + "#effect:pooled-buffer-bound-to-a-local", OK: nget == len(gets),
		Detail: "every sync.Pool.Get result must be bound directly to a local variable", Pos: p.fset.Position(fd.Pos()).String()})
	mentions := func(e ast.Node) bool {
		found := false
		ast.Inspect(e, func(n ast.Node) bool {
			if id, ok := n.(*ast.Ident); ok && pooled[info.Uses[id]] {
				found = true
			}
			return true
		})
		return found
	}
	escapes := []string{}
	puts := 0
	ast.Inspect(fd.Body, func(n ast.Node) bool {
		switch a := n.(type) {
		case *ast.ReturnStmt:
			for _, r := range a.Results {
				// a call that merely uses the buffer and returns something else is fine: only a direct
				// mention outside call arguments escapes
				if mentionsOutsideCalls(r, func(id *ast.Ident) bool { return pooled[info.Uses[id]] }) {
					escapes = append(escapes, p.fset.Position(a.Pos()).String()+": returned")
				}
			}
		case *ast.AssignStmt:
			for i, l := range a.Lhs {
				if i < len(a.Rhs) && mentionsOutsideCalls(a.Rhs[i], func(id *ast.Ident) bool { return pooled[info.Uses[id]] }) {
					if id, ok := l.(*ast.Ident); ok {
						if v, ok := info.ObjectOf(id).(*types.Var); ok && v.Pkg() != nil && v.Parent() != v.Pkg().Scope() {
							pooled[v] = true // local alias
							continue
						}
					}
					escapes = append(escapes, p.fset.Position(a.Pos()).String()+": stored outside the function's locals")
				}
			}
		case *ast.SendStmt:
			if mentions(a.Value) {
				escapes = append(escapes, p.fset.Position(a.Pos()).String()+": sent on a channel")
			}
		case *ast.GoStmt:
			if mentions(a.Call) {
				escapes = append(escapes, p.fset.Position(a.Pos()).String()+": captured by a go statement")
			}
		case *ast.CallExpr:
			if isPoolMethod(a, "Put") {
				if len(a.Args) == 1 && mentions(a.Args[0]) {
					puts++
				} else {
					escapes = append(escapes, p.fset.Position(a.Pos()).String()+": Put of a value not taken here")
				}
			}
		}
		return true
	})
	out = append(out, effectObl{Name: fname + "#effect:pooled-buffer-does-not-escape-its-get-put-scope", OK: len(escapes) == 0,
		Detail: strings.Join(escapes, "; "), Pos: p.fset.Position(fd.Pos()).String()})
	out = append(out, effectObl{Name: fname + "#effect:pooled-buffer-put-back-by-the-taking-function", OK: puts >= len(gets),
		Detail: fmt.Sprintf("%d Get, %d Put of the taken value", len(gets), puts), Pos: p.fset.Position(fd.Pos()).String()})
	return out
}

// mentionsOutsideCalls: e mentions a matching identifier other than inside the argument list of a call
// (a call uses the value for its duration; its result is a different value).
func mentionsOutsideCalls(e ast.Expr, match func(*ast.Ident) bool) bool {
	found := false
	var walk func(n ast.Node) bool
	walk = func(n ast.Node) bool {
		switch a := n.(type) {
		case *ast.CallExpr:
			return false
		case *ast.Ident:
			if match(a) {
				found = true
			}
		}
		return true
	}
	ast.Inspect(e, walk)
	return found
}

// sharedValueField: sel is x.f where x is (a pointer to) a shared object and f is a field held by value
// (a struct, array or slice - not a pointer or interface to something synchronised elsewhere).
func sharedValueField(info *types.Info, sel *ast.SelectorExpr, shared map[string]bool) (string, string) {
	s := info.Selections[sel]
	if s == nil || s.Kind() != types.FieldVal {
		return "", ""
	}
	rt := s.Recv()
	if pt, ok := rt.Underlying().(*types.Pointer); ok {
		rt = pt.Elem()
	}
	named, ok := types.Unalias(rt).(*types.Named)
	if !ok || named.Obj().Pkg() == nil {
		return "", ""
	}
	k := named.Obj().Pkg().Name() + "." + named.Obj().Name()
	if !shared[k] {
		return "", ""
	}
	switch s.Type().Underlying().(type) {
	case *types.Struct, *types.Array, *types.Slice, *types.Map:
		return k, sel.Sel.Name
	}
	return "", ""
}

func isConstructor(fd *ast.FuncDecl) bool {
	return fd.Recv == nil && strings.HasPrefix(fd.Name.Name, "New")
}

// checkEffectsC18: determinism of the layout path. For every function of the listed packages:
// no iteration over a map, no goroutine/select, and every nondeterministic source (time.Now,
// crypto/rand, math/rand, os.Getpid ...) occurs only in an allow-listed statement. Values derived from
// a source are followed one step: a local bound to a source may be used only as the value of the
// allow-listed struct fields; those fields may be read only in the allow-listed functions.
func (p *Program) checkEffectsC18(cfg *effectCfg) []effectObl {
	var obls []effectObl
	isSource := func(obj types.Object) string {
		if obj == nil || obj.Pkg() == nil {
			return ""
		}
		switch obj.Pkg().Path() {
		case "time":
			switch obj.Name() {
			case "Now", "Since", "Until":
				return "time." + obj.Name()
			}
		case "crypto/rand", "math/rand", "math/rand/v2":
			return "rand." + obj.Name()
		case "os":
			switch obj.Name() {
			case "Getpid", "Getppid", "Hostname", "Getenv", "Environ", "Getwd":
				return "os." + obj.Name()
			}
		case "sync":
			// a pooled object carries whatever an earlier use left in it
			if f, ok := obj.(*types.Func); ok && obj.Name() == "Get" && strings.Contains(f.FullName(), "Pool") {
				return "sync.Pool.Get"
			}
		}
		return ""
	}
	var paths []string
	for path := range p.pkgs {
		paths = append(paths, path)
	}
	sort.Strings(paths)
	inPkgs := map[string]bool{}
	for _, n := range cfg.Packages {
		inPkgs[n] = true
	}
	fieldReaders := map[string]map[string]bool{} // "pkg.Type.field" -> functions reading it
	for _, path := range paths {
		pk := p.pkgs[path]
		if !strings.HasPrefix(path, modulePrefix) || !inPkgs[pk.Types.Name()] {
			continue
		}
		info := pk.TypesInfo
		for _, f := range pk.Syntax {
			if strings.HasSuffix(p.fset.Position(f.Pos()).Filename, "_test.go") {
				continue
			}
			for _, d := range f.Decls {
				fd, ok := d.(*ast.FuncDecl)
				if !ok || fd.Body == nil {
					continue
				}
				fobj, _ := info.Defs[fd.Name].(*types.Func)
				if fobj == nil {
					continue
				}
				fname := pk.Types.Name() + "." + funcKey(fobj)
				src := p.source(p.fset.Position(fd.Pos()).Filename)
				text := func(n ast.Node) string {
					a, b := p.fset.Position(n.Pos()).Offset, p.fset.Position(n.End()).Offset
					if src == nil || b > len(src) {
						return ""
					}
					return strings.Join(strings.Fields(string(src[a:b])), " ")
				}
				// innermost simple statement containing pos
				var simple []ast.Stmt
				ast.Inspect(fd.Body, func(n ast.Node) bool {
					switch s := n.(type) {
					case *ast.AssignStmt, *ast.ExprStmt, *ast.ReturnStmt, *ast.DeclStmt, *ast.IncDecStmt, *ast.GoStmt, *ast.DeferStmt, *ast.SendStmt:
						simple = append(simple, s.(ast.Stmt))
					}
					return true
				})
				enclosing := func(pos token.Pos) ast.Stmt {
					var best ast.Stmt
					for _, s := range simple {
						if s.Pos() <= pos && pos < s.End() && (best == nil || s.End()-s.Pos() < best.End()-best.Pos()) {
							best = s
						}
					}
					return best
				}
				mapRanges, gos := 0, 0
				nsrc := 0
				tainted := map[types.Object]string{}
				ast.Inspect(fd.Body, func(n ast.Node) bool {
					switch a := n.(type) {
					case *ast.RangeStmt:
						if _, isMap := info.TypeOf(a.X).Underlying().(*types.Map); isMap {
							mapRanges++
						}
					case *ast.GoStmt, *ast.SelectStmt:
						gos++
					case *ast.SelectorExpr:
						if txt := isSource(info.Uses[a.Sel]); txt != "" {
							nsrc++
							st := enclosing(a.Pos())
							stmt := ""
							if st != nil {
								stmt = text(st)
							}
							good := false
							for _, want := range cfg.NondetSinks[fname+":"+txt] {
								if strings.Contains(stmt, want) {
									good = true
								}
							}
							// a source that directly initialises a struct field: the field is the sink
							inKV := false
							if st != nil {
								ast.Inspect(st, func(m ast.Node) bool {
									if kv, ok := m.(*ast.KeyValueExpr); ok && kv.Value.Pos() <= a.Pos() && a.Pos() < kv.Value.End() {
										if k, ok := kv.Key.(*ast.Ident); ok {
											inKV = true
											good = false
											for _, want := range cfg.NondetSinks[fname+":"+txt] {
												if want == k.Name+":" {
													good = true
												}
											}
										}
									}
									return true
								})
							}
							obls = append(obls, effectObl{Name: fmt.Sprintf("%s#effect:nondeterministic-source:%s#%d", fname, txt, nsrc), OK: good,
								Detail: fmt.Sprintf("statement %q; allowed forms: %q", stmt, cfg.NondetSinks[fname+":"+txt]), Pos: p.fset.Position(a.Pos()).String()})
							if as, ok := st.(*ast.AssignStmt); ok && len(as.Lhs) == 1 && !inKV {
								if id, ok := as.Lhs[0].(*ast.Ident); ok {
									if o := info.ObjectOf(id); o != nil {
										tainted[o] = id.Name
									}
								}
							}
						}
						if s := info.Selections[a]; s != nil && s.Kind() == types.FieldVal {
							rt := s.Recv()
							if pt, ok := rt.Underlying().(*types.Pointer); ok {
								rt = pt.Elem()
							}
							if named, ok := types.Unalias(rt).(*types.Named); ok && named.Obj().Pkg() != nil {
								k := named.Obj().Pkg().Name() + "." + named.Obj().Name() + "." + a.Sel.Name
								if fieldReaders[k] == nil {
									fieldReaders[k] = map[string]bool{}
								}
								fieldReaders[k][fname] = true
							}
						}
					}
					return true
				})
				// uses of tainted locals
				if len(tainted) > 0 {
					var kvs []*ast.KeyValueExpr
					nuse := 0
					ast.Inspect(fd.Body, func(n ast.Node) bool {
						if kv, ok := n.(*ast.KeyValueExpr); ok {
							kvs = append(kvs, kv)
						}
						return true
					})
					ast.Inspect(fd.Body, func(n ast.Node) bool {
						id, ok := n.(*ast.Ident)
						if !ok {
							return true
						}
						name, isT := tainted[info.Uses[id]]
						if !isT {
							return true
						}
						good := false
						key := ""
						for _, kv := range kvs {
							if kv.Value.Pos() <= id.Pos() && id.Pos() < kv.Value.End() {
								if k, ok := kv.Key.(*ast.Ident); ok {
									key = k.Name
									for _, f := range cfg.TaintLocals[fname+":"+name] {
										if f == k.Name {
											good = true
										}
									}
								}
							}
						}
						nuse++
						obls = append(obls, effectObl{Name: fmt.Sprintf("%s#effect:time-or-random-value-flows-only-into-allowed-fields:%s#%d", fname, name, nuse),
							OK: good, Detail: fmt.Sprintf("use of %s as value of field %q; allowed fields %q", name, key, cfg.TaintLocals[fname+":"+name]), Pos: p.fset.Position(id.Pos()).String()})
						return true
					})
				}
				obls = append(obls, effectObl{Name: fname + "#effect:no-map-iteration", OK: mapRanges == 0, Pos: p.fset.Position(fd.Pos()).String(),
					Detail: "map iteration order is random"})
				obls = append(obls, effectObl{Name: fname + "#effect:no-goroutine-or-select", OK: gos == 0, Pos: p.fset.Position(fd.Pos()).String()})
				// no state carried from one open to the next: a package-level variable of the module that can hold
				// mutable state (map, sync.Map, pointer, slice of structs, struct with such fields ...) makes the image depend
				// on what was built before. Immutable values by type (sentinel errors, basic values, arrays / slices of basic
				// values, structs of those) are tables.
				carried, carriedPos := "", p.fset.Position(fd.Pos()).String()
				ast.Inspect(fd.Body, func(n ast.Node) bool {
					id, ok := n.(*ast.Ident)
					if !ok || carried != "" {
						return true
					}
					v, ok := info.Uses[id].(*types.Var)
					if !ok || v.Pkg() == nil || v.IsField() || v.Parent() != v.Pkg().Scope() || !strings.HasPrefix(v.Pkg().Path(), modulePrefix) {
						return true
					}
					if !immutableValueType(v.Type()) {
						carried = v.Pkg().Name() + "." + v.Name()
						carriedPos = p.fset.Position(id.Pos()).String()
					}
					return true
				})
				obls = append(obls, effectObl{Name: fname + "#effect:no-state-carried-between-opens", OK: carried == "", Pos: carriedPos,
					Detail: "uses the package-level variable " + carried + " whose type can hold state that outlives one image construction"})
			}
		}
	}
	var tf []string
	for k := range cfg.TaintFields {
		tf = append(tf, k)
	}
	sort.Strings(tf)
	for _, k := range tf {
		allowed := map[string]bool{}
		for _, f := range cfg.TaintFields[k] {
			allowed[f] = true
		}
		if fieldReaders[k] == nil {
			obls = append(obls, effectObl{Name: k + "#effect:time-or-random-field-exists", OK: false, Detail: "field is never selected: configuration out of date"})
			continue
		}
		var fs []string
		for f := range fieldReaders[k] {
			fs = append(fs, f)
		}
		sort.Strings(fs)
		for _, f := range fs {
			obls = append(obls, effectObl{Name: k + "#effect:time-or-random-field-used-only-in-allowed-functions:" + f, OK: allowed[f],
				Detail: fmt.Sprintf("field %s (holds a time/random value) is used in %s; allowed: %q", k, f, cfg.TaintFields[k])})
		}
	}
	sort.Slice(obls, func(i, j int) bool { return obls[i].Name < obls[j].Name })
	return obls
}

// ioFrameCfg: the frame half of root confinement (C01). The SMT obligations show that every path handed to an
// afero.Fs method is confined; they say nothing about code that reaches the host file system without going through
// an afero.Fs value. This scan generates one obligation per function of the listed packages: the function refers to
// no function of a package that opens, stats, lists or changes host files by name (os, io/ioutil, os/exec, syscall,
// golang.org/x/sys, github.com/djherbis/times, the by-name walkers of path/filepath) and constructs no unconfined
// afero file system, except for the allow-listed entries (which take no path).
type ioFrameCfg struct {
	Packages []string `json:"packages"`
	Allowed  []string `json:"allowed"` // "pkgpath.Name" of functions that may be used
}

func (p *Program) checkIOFrame(cfg *ioFrameCfg) []effectObl {
	var obls []effectObl
	allowed := map[string]bool{}
	for _, a := range cfg.Allowed {
		allowed[a] = true
	}
	inPkgs := map[string]bool{}
	for _, n := range cfg.Packages {
		inPkgs[n] = true
	}
	hostIO := func(obj types.Object) string {
		f, ok := obj.(*types.Func)
		if !ok || f.Pkg() == nil {
			return ""
		}
		path := f.Pkg().Path()
		full := path + "." + f.Name()
		if sig, ok := f.Type().(*types.Signature); ok && sig.Recv() != nil {
			// methods: only those of the OS file system objects of afero reach the host by name
			rt := sig.Recv().Type().String()
			if strings.Contains(rt, "afero.OsFs") {
				return "afero.OsFs." + f.Name()
			}
			return ""
		}
		if allowed[full] {
			return ""
		}
		switch {
		case path == "os":
			// only the entry points that take a file name (or a raw descriptor); os.Getenv, os.Exit, ... are no file access
			switch f.Name() {
			case "Open", "OpenFile", "Create", "CreateTemp", "Stat", "Lstat", "ReadFile", "WriteFile", "ReadDir", "Remove", "RemoveAll",
				"Mkdir", "MkdirAll", "MkdirTemp", "Rename", "Chmod", "Chown", "Lchown", "Chtimes", "Truncate", "Symlink", "Link",
				"Readlink", "DirFS", "OpenRoot", "OpenInRoot", "Chdir", "CopyFS", "NewFile":
				return full
			}
		case path == "io/ioutil":
			switch f.Name() {
			case "ReadFile", "WriteFile", "ReadDir", "TempFile", "TempDir":
				return full
			}
		case path == "github.com/djherbis/times":
			switch f.Name() {
			case "Stat", "Lstat":
				return full
			}
		case path == "os/exec" || path == "syscall" || path == "plugin" || strings.HasPrefix(path, "golang.org/x/sys/"):
			return full
		case path == "path/filepath":
			switch f.Name() {
			case "Walk", "WalkDir", "Glob", "EvalSymlinks", "Abs":
				return full
			}
		case path == "github.com/spf13/afero":
			switch f.Name() {
			case "NewOsFs", "NewBasePathFs", "NewMemMapFs", "NewCopyOnWriteFs", "NewCacheOnReadFs", "NewReadOnlyFs", "NewRegexpFs":
				return full
			}
		}
		return ""
	}
	var paths []string
	for path := range p.pkgs {
		paths = append(paths, path)
	}
	sort.Strings(paths)
	for _, path := range paths {
		pk := p.pkgs[path]
		if !strings.HasPrefix(path, modulePrefix) || !inPkgs[pk.Types.Name()] {
			continue
		}
		info := pk.TypesInfo
		for _, f := range pk.Syntax {
			if strings.HasSuffix(p.fset.Position(f.Pos()).Filename, "_test.go") {
				continue
			}
			for _, d := range f.Decls {
				fd, ok := d.(*ast.FuncDecl)
				if !ok || fd.Body == nil {
					continue
				}
				fobj, _ := info.Defs[fd.Name].(*types.Func)
				if fobj == nil {
					continue
				}
				name := pk.Types.Name() + "." + funcKey(fobj) + "#effect:host-files-are-reached-only-through-the-confined-afero.Fs"
				o := effectObl{Name: name, OK: true, Pos: p.fset.Position(fd.Pos()).String()}
				ast.Inspect(fd.Body, func(n ast.Node) bool {
					switch x := n.(type) {
					case *ast.Ident:
						if w := hostIO(info.Uses[x]); w != "" && o.OK {
							o.OK = false
							o.Detail = "refers to " + w
							o.Pos = p.fset.Position(x.Pos()).String()
						}
					case *ast.CompositeLit:
						if tv, ok := info.Types[x]; ok && strings.Contains(tv.Type.String(), "afero.OsFs") && o.OK {
							o.OK = false
							o.Detail = "constructs an afero.OsFs (unconfined file system)"
							o.Pos = p.fset.Position(x.Pos()).String()
						}
					}
					return true
				})
				obls = append(obls, o)
			}
		}
	}
	return obls
}
