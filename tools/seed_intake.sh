#!/bin/bash
# usage: seed_intake.sh <worktree> <seed-id> <property> <demo-file-rel> <pkg-dir-rel> <test-regex> "<needs>"
# Confirms a seeded change (builds, pinned tests pass, demo fails with / passes without), stores it under
# /verif/seeded/<seed-id>/, runs the registered checks of every claimed property against /repo with the
# patch applied, and restores /repo.
set -u
WT=$1; ID=$2; PROP=$3; DEMO=$4; PKG=$5; RE=$6; NEEDS=$7
export GOFLAGS=-mod=mod GOPROXY=off GOSUMDB=off GOTOOLCHAIN=local
OUT=/verif/seeded/$ID; mkdir -p $OUT
cd $WT || exit 2
git diff -- pkg internal cmd ':(exclude)*contracts_verif.go' > $OUT/patch.diff
cp $WT/$DEMO $OUT/$(basename $DEMO)
[ -s $OUT/patch.diff ] || { echo "empty patch"; exit 2; }
echo "== build with change"; go build ./... && echo build-ok
echo "== pinned tests with change"; go test -vet=off -count=1 ./pkg/iprange ./pkg/kongini 2>&1 | tail -2; go test -vet=off -count=1 -run TestSFO ./pkg/fs 2>&1 | tail -1
echo "== demo with change (must fail)"; go test -vet=off -count=1 -timeout 120s -run "$RE" ./$PKG > $OUT/demo_with.txt 2>&1; W=$?; tail -3 $OUT/demo_with.txt
git apply -R $OUT/patch.diff
echo "== demo without change (must pass)"; go test -vet=off -count=1 -timeout 120s -run "$RE" ./$PKG > $OUT/demo_without.txt 2>&1; WO=$?; tail -2 $OUT/demo_without.txt
git apply $OUT/patch.diff
echo "demo exit with=$W without=$WO"
cd /repo && git apply $OUT/patch.diff || { echo "patch does not apply to /repo"; exit 2; }
DET=""
PROPS=${CHECKS:-$(python3 -c "import json;print(' '.join(c['property_id'] for c in json.load(open('/verif/MANIFEST.json'))['checks']))")}
mkdir -p /tmp/seedrun; rm -f /tmp/seedrun/*
echo $PROPS | tr ' ' '\n' | xargs -P 4 -I{} bash -c "cd /verif && ./bin/govc check --property {} > /tmp/seedrun/{}.out 2>&1"
for P in $PROPS; do
  R=$(grep -E "^VIOLATION|^CHECK-BROKEN" /tmp/seedrun/$P.out | head -3)
  if [ -n "$R" ]; then DET="$DET $P"; echo "-- $P:"; echo "$R" | cut -c1-220; fi
done
cd /repo && git checkout -- . && git status --short | head -3
echo "DETECTED-BY:$DET"
python3 - <<PY
import json
json.dump({"id":"$ID","property":"$PROP","needs":"""$NEEDS""","demo":"$(basename $DEMO)","demo_run":"cd <worktree> && go test -vet=off -count=1 -run '$RE' ./$PKG","demo_exit_with_change":$W,"demo_exit_without_change":$WO,
 "confirmed_by":"tools/seed_intake.sh: go build ./...; pinned tests (iprange, kongini, TestSFO) pass with the change; demo fails with and passes without the change","detected_by_checks":"$DET".split()},open("$OUT/meta.json","w"),indent=1)
PY
