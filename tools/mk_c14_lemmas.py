#!/usr/bin/env python3
"""Generates the bit-vector lemmas of C14 (/verif/lemmas/c14_*.smt2).

The contracts of pkg/iprange state the bounds of a CIDR / netmask block byte by byte with the
operators & | &^ on bytes (cidrBounds4 / cidrBounds6 in pkg/iprange/contracts_verif.go) and the mask
bytes with mbyte(p, k) (contracts/lib/net.spec). These lemmas prove, in the theory of fixed-size
bit-vectors, that those byte-wise bounds denote exactly the documented set:
   { x : x in the block of a under the prefix mask } minus network and broadcast address,
   both kept when the block has one or two addresses,
and that mbyte(p, .) / contig4 describe exactly the prefix masks. Every file asserts the NEGATION of
its claim: the expected answer is unsat.
"""
import os
V = os.path.dirname(os.path.dirname(os.path.abspath(__file__)))
out = os.path.join(V, 'lemmas')

def byte(v, k, n):  # byte k (0 = most significant) of an n-byte vector v
    hi = 8 * (n - k) - 1
    return f'((_ extract {hi} {hi-7}) {v})'

def block(n, name):
    """n = number of address bytes (4 or 16)."""
    w = 8 * n
    L = []
    L.append(f'; {name}: byte-wise block bounds of the iprange contracts = documented address set ({w}-bit)')
    L.append('(set-logic QF_BV)')
    for v in 'axm':
        L.append(f'(declare-const {v} (_ BitVec {w}))')
    one = f'(_ bv1 {w})'
    zero = f'(_ bv0 {w})'
    # m is a prefix mask: its complement is 2^k - 1
    L.append(f'(define-fun prefixmask () Bool (= (bvand (bvnot m) (bvadd (bvnot m) {one})) {zero}))')
    # small: block of one or two addresses <=> host part has at most one bit <=> prefix length >= w-1
    L.append(f'(define-fun small () Bool (bvule (bvnot m) {one}))')
    # byte-wise bounds exactly as in cidrBounds4 / cidrBounds6
    lb, rb = [], []
    for k in range(n):
        ak, mk = byte('a', k, n), byte('m', k, n)
        l = f'(bvand {ak} {mk})'
        r = f'(bvor (bvand {ak} {mk}) (bvsub #xff {mk}))'   # 255 - m_k, as written in the contract
        if k == n - 1:
            l = f'(ite small {l} (bvor {l} #x01))'
            r = f'(ite small {r} (bvand {r} (bvnot #x01)))'
        lb.append(l)
        rb.append(r)
    L.append('(define-fun left () (_ BitVec %d) (concat %s))' % (w, ' '.join(lb)))
    L.append('(define-fun right () (_ BitVec %d) (concat %s))' % (w, ' '.join(rb)))
    # documented set
    L.append('(define-fun net () (_ BitVec %d) (bvand a m))' % w)
    L.append('(define-fun bc () (_ BitVec %d) (bvor (bvand a m) (bvnot m)))' % w)
    L.append('(define-fun member () Bool (and (= (bvand x m) net) (=> (not small) (and (distinct x net) (distinct x bc)))))')
    # Contains: inclusive interval in byte (= unsigned) order
    L.append('(define-fun contained () Bool (and (bvule left x) (bvule x right)))')
    L.append('(assert prefixmask)')
    L.append('(assert (not (= contained member)))')
    L.append('(check-sat)')
    return '\n'.join(L) + '\n'

def masks():
    """mbyte(p, k) is byte k of the prefix mask of length p; contig4 = "is a 32-bit prefix mask";
    small4 = "prefix length >= 31"."""
    L = ['; mbyte / contig4 / small4 of the contracts describe prefix masks', '(set-logic ALL)']
    # Int-level definitions, same structure as contracts/lib/net.spec
    L.append('(define-fun p2 ((k Int)) Int (ite (<= k 0) 1 (ite (= k 1) 2 (ite (= k 2) 4 (ite (= k 3) 8 (ite (= k 4) 16 (ite (= k 5) 32 (ite (= k 6) 64 (ite (= k 7) 128 256)))))))))')
    L.append('(define-fun mbyte ((ones Int) (i Int)) Int (ite (>= ones (+ (* 8 i) 8)) 255 (ite (<= ones (* 8 i)) 0 (- 256 (p2 (- (+ (* 8 i) 8) ones))))))')
    bad = []
    for n in (4, 16):
        w = 8 * n
        for p in range(w + 1):
            mask = ((1 << w) - 1) ^ ((1 << (w - p)) - 1)
            for k in range(n):
                b = (mask >> (8 * (n - 1 - k))) & 255
                bad.append(f'(not (= (mbyte {p} {k}) {b}))')
            # "small" in the block lemmas (at most one host bit) is "p >= w-1" in the contracts
            inv = ((1 << w) - 1) ^ mask
            bad.append(f'(not (= (bvule (_ bv{inv} {w}) (_ bv1 {w})) (>= {p} {w - 1})))')
    L.append('(assert (or %s))' % ' '.join(bad))
    L.append('(check-sat)')
    a = '\n'.join(L) + '\n'
    M = ['; contig4(m0..m3) <=> m is a 32-bit prefix mask; small4 <=> at most one host bit', '(set-logic QF_BV)', '(declare-const m (_ BitVec 32))']
    for k in range(4):
        M.append(f'(define-fun m{k} () (_ BitVec 8) {byte("m", k, 4)})')
    M.append('(define-fun prefixbyte ((b (_ BitVec 8))) Bool (or (= b #x00) (= b #x80) (= b #xc0) (= b #xe0) (= b #xf0) (= b #xf8) (= b #xfc) (= b #xfe) (= b #xff)))')
    M.append('(define-fun contig4 () Bool (and (prefixbyte m0) (prefixbyte m1) (prefixbyte m2) (prefixbyte m3) (=> (distinct m0 #xff) (= m1 #x00)) (=> (distinct m1 #xff) (= m2 #x00)) (=> (distinct m2 #xff) (= m3 #x00))))')
    M.append('(define-fun prefixmask () Bool (= (bvand (bvnot m) (bvadd (bvnot m) #x00000001)) #x00000000))')
    M.append('(define-fun small4 () Bool (and (= m0 #xff) (= m1 #xff) (= m2 #xff) (bvuge m3 #xfe)))')
    M.append('(assert (not (and (= contig4 prefixmask) (=> prefixmask (= small4 (bvule (bvnot m) #x00000001))))))')
    M.append('(check-sat)')
    return a, '\n'.join(M) + '\n'

def order():
    """Contains compares (be64 at 0, be64 at 8) pairs; that is the unsigned order of the 128-bit values."""
    L = ['; lexicographic order of (hi, lo) 64-bit pairs = unsigned order of the 128-bit address', '(set-logic QF_BV)',
         '(declare-const a (_ BitVec 128))', '(declare-const b (_ BitVec 128))',
         '(define-fun hi ((v (_ BitVec 128))) (_ BitVec 64) ((_ extract 127 64) v))',
         '(define-fun lo ((v (_ BitVec 128))) (_ BitVec 64) ((_ extract 63 0) v))',
         '(assert (not (= (bvule a b) (or (bvult (hi a) (hi b)) (and (= (hi a) (hi b)) (bvule (lo a) (lo b)))))))',
         '(check-sat)']
    return '\n'.join(L) + '\n'

os.makedirs(out, exist_ok=True)
open(os.path.join(out, 'c14_block_v4.smt2'), 'w').write(block(4, 'c14_block_v4'))
open(os.path.join(out, 'c14_block_v6.smt2'), 'w').write(block(16, 'c14_block_v6'))
a, m = masks()
open(os.path.join(out, 'c14_mbyte_is_prefix_mask.smt2'), 'w').write(a)
open(os.path.join(out, 'c14_contig4_is_prefix_mask.smt2'), 'w').write(m)
open(os.path.join(out, 'c14_pair_order_is_address_order.smt2'), 'w').write(order())
